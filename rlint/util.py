"""Shared helpers for rule packs (anchor lookup, role inference, site keys)."""
import re as _re
from . import absint, cfg as cfgmod, zones
from .absint import tstr
from .core import Anchor

_cache = {}


def _kwkey(v):
    try:
        hash(v)
        return v
    except TypeError:
        return ("id", id(v))


def analyse(body, **kw):
    # (the key holds the option values, not only their names: two analysers with different inline sets or features must
    # not share results)
    k = (id(body), tuple(sorted((n, _kwkey(v)) for n, v in kw.items())))
    r = _cache.get(k)
    if r is None or r[0] is not body:
        I = absint.analyse(body, **kw)
        _cache[k] = (body, I)
        return I
    return r[1]


NEEDED = []   # (crate, body) pairs a rule pack asked for by name: the entry points it judges


def need_body(crate, name):
    b = crate.body(name)
    if b is None:
        raise Anchor("function %s not found in crate %s" % (name, crate.name))
    NEEDED.append((crate, b))
    return b


def rule_entry_names(col, rid="ENTRY"):
    """A public free function that a pack judges by name must be what callers of that name get: another public free function of
    the same name elsewhere in the crate (a wrapper placed where the re-export used to be) either forwards to it unchanged or
    is an implementation nobody has looked at."""
    seen = set()
    col.rule(rid, "no second public free function carries the name of a judged entry point, except a plain forwarder to it", floor=0)
    for crate, b in NEEDED:
        if b.kind != "Fn" or b.container is not None or b.vis != "pub" or b.key in seen:
            continue
        seen.add(b.key)
        for o in crate.bodies:
            if o.key == b.key or o.is_closure or o.kind != "Fn" or o.container is not None or o.vis != "pub" or o.name != b.name:
                continue
            I = analyse(o)
            fwd = bool(I.final_states)
            for st in I.final_states:
                calls = [e for e in st.event_list() if e.kind == "call"]
                own = [e for e in calls if (e.fn.get("resolved") or e.fn).get("def") == b.key]
                params = [("param", i + 1, I.names.get(i + 1)) for i in range(o.arg_count)]
                fwd = fwd and len(calls) == 1 and len(own) == 1 and list(own[0].args) == params and ret_term(st) == own[0].res
            key = "%s|same-name|%s" % (fkey(b), fkey(o))
            if fwd:
                col.ok(rid, o.loc(), key, "forwards to %s unchanged" % b.path, nontrivial=False)
            else:
                col.violation(rid, key, o.loc(), "%s is a second public function named `%s`: callers of that name may get it instead of %s, and it is not a plain forwarder to it (the rules of this property were applied to %s only)" % (o.path, b.name, b.path, b.path))


def opt_body(crate, name):
    return crate.body(name)


def need_adt(crate, name):
    a = crate.adt(name)
    if a is None:
        raise Anchor("type %s not found in crate %s" % (name, crate.name))
    return a


def fields_of(adt, variant=0):
    return adt["variants"][variant]["fields"]


def field_index_by_type(adt, pred):
    return [i for i, f in enumerate(fields_of(adt)) if pred(f["ty"])]


def methods_of(crate, adt_path_suffix):
    """bodies that are associated fns of inherent impls whose self type is the ADT"""
    out = []
    for b in crate.bodies:
        if b.is_closure:
            continue
        imp = crate.impl_of(b)
        if imp is None:
            continue
        st = imp["self_ty"]
        base = st.split("<")[0]
        if base == adt_path_suffix or base.endswith("::" + adt_path_suffix):
            out.append(b)
    return out


def self_recursive(body):
    for bb, t in body.calls():
        fn = t["fn"]
        if fn.get("def") == body.key or (fn.get("resolved") or {}).get("def") == body.key:
            return True
    return False


def callee_key(t):
    fn = t["fn"]
    if "indirect" in fn:
        return None
    r = fn.get("resolved")
    return (r or fn).get("def")


def calls_to(body, key):
    return [(bb, t) for bb, t in body.calls() if callee_key(t) == key or t["fn"].get("def") == key]


def fkey(body):
    """stable key of a function for violation keys (no line numbers)"""
    return body.path


def is_field_place(pl, field_idx, base=None):
    return pl[0] == "field" and pl[2] == field_idx and (base is None or pl[1] == base)


def index_into_field(pl, field_idx):
    """pl == <something>.field[idx] -> idx term else None"""
    if pl[0] == "index" and pl[1][0] == "field" and pl[1][2] == field_idx:
        return pl[2]
    return None


def events_of(st, kind=None):
    return [e for e in st.event_list() if kind is None or e.kind == kind]


def ret_term(st):
    return st.env.get(0)


def entails(I, facts, op, a, b):
    return zones.entails(facts, op, a, b, I.tys)


def lin_equal(a, b):
    la, lb = zones.linearize(a), zones.linearize(b)
    d = zones.lin_sub(la, lb)
    return not d[0] and d[1] == 0


def reachable_calls(program, roots, follow=lambda fn: True):
    """call-graph closure over exported bodies; returns dict key -> body and the list of
    external (non-exported) callees met"""
    seen = {}
    ext = {}
    work = list(roots)
    while work:
        b = work.pop()
        if b.key in seen:
            continue
        seen[b.key] = b
        # closures defined in b are reachable with it
        for c in b.crate.bodies:
            if c.is_closure and c.parent == b.key and c.key not in seen:
                work.append(c)
        # items referenced without being called directly: fn items passed as values (thread_local! init
        # functions, callbacks), named constants / statics with initialiser bodies, promoted constants, and
        # items nested inside b (anonymous constants and their closures)
        for c in _referenced_bodies(b):
            if c.key not in seen:
                work.append(c)
        for bb, t in b.calls():
            fn = t["fn"]
            if "indirect" in fn:
                ext.setdefault("<indirect>", []).append((b, bb))
                continue
            k = (fn.get("resolved") or fn).get("def")
            tgt = program.by_key.get(k)
            if tgt is None:
                # unresolved trait method: all impls in the program are candidates
                cands = []
                if fn.get("trait") and not fn.get("resolved"):
                    nm = fn.get("name")
                    for cr in program.crates.values():
                        for imp in cr.impls:
                            if (imp.get("trait_key") == fn.get("trait_key")) if (imp.get("trait_key") and fn.get("trait_key")) else (imp.get("trait") == fn["trait"]):
                                for it in imp["items"]:
                                    if it["name"] == nm and it["key"] in program.by_key:
                                        cands.append(program.by_key[it["key"]])
                if cands:
                    work.extend(cands)
                else:
                    ext.setdefault(k or fn.get("path"), []).append((b, bb))
            else:
                work.append(tgt)
    return seen, ext


_ref_cache = {}


def _referenced_bodies(b):
    """bodies of the same crate whose path occurs in an operand / type / promoted text of b, or that are
    lexically nested in b (over-approximation: a mention is treated as a possible use)"""
    r = _ref_cache.get(id(b))
    if r is not None and r[0] is b:
        return r[1]
    import json as _json
    import re as _re

    txt = _json.dumps([b.blocks, b.j.get("promoted")])
    out = []
    for c in b.crate.bodies:
        if c is b:
            continue
        if c.path.startswith(b.path + "::") and not c.is_closure:
            out.append(c)
            continue
        if c.is_closure:
            continue
        p = c.path
        i = txt.find(p)
        while i >= 0:
            j = i + len(p)
            before = txt[i - 1] if i > 0 else " "
            after = txt[j] if j < len(txt) else " "
            if not (before.isalnum() or before in "_:") and not (after.isalnum() or after == "_" or txt[j:j + 2] == "::"):
                out.append(c)
                break
            i = txt.find(p, j)
    _ref_cache[id(b)] = (b, out)
    return out


# ---- private helpers: judged in the context of their callers -------------------------------------
def reach_private(crate, b, within=None):
    """bodies of the crate reachable from b through direct calls (transitively), b excluded; `within` restricts
    the walk to a set of body keys"""
    out, work, seen = [], [b], {b.key}
    while work:
        x = work.pop()
        for cb in [x] + list(crate.closures_of(x)):
            for bb, t in cb.calls():
                k = callee_key(t)
                y = crate.by_key.get(k) if k else None
                if y is None or y.key in seen or y.is_closure:
                    continue
                if within is not None and y.key not in within:
                    continue
                seen.add(y.key)
                out.append(y)
                work.append(y)
    return out


def resolve_role(crate, entry, name, pred, what, candidates=None, named_ok=None):
    """the body playing a private role: the one with the historical name if it still satisfies `pred`, else the
    unique non-public body reachable from the public entry point(s) that does (roles are recognised by what
    they do; private names are free to change)"""
    entries = entry if isinstance(entry, (list, tuple)) else [entry]
    for e in entries:
        pref = e.path.rsplit("::", 1)[0]
        b = crate.body("%s::%s" % (pref, name)) if name else None
        if b is not None and (named_ok or pred)(b):
            return b
    found = []
    for e in entries:
        for y in reach_private(crate, e):
            if y.vis != "pub" and pred(y) and y.key not in {f.key for f in found} and (candidates is None or y.key in candidates):
                found.append(y)
    if len(found) == 1:
        return found[0]
    raise Anchor("cannot identify %s: %s" % (what, "no candidate reachable from %s" % ", ".join(e.name for e in entries) if not found else "candidates %s" % [f.name for f in found]))


def private_helpers(crate, adt_suffix, exclude=()):
    """non-public, non-recursive inherent methods / associated fns of the ADT that are not among the
    role functions `exclude` (bodies): extracted helpers are inlined into the analysis of their callers"""
    ex = {b.key for b in exclude if b is not None}
    own = [b for b in methods_of(crate, adt_suffix) if b.vis != "pub" and b.key not in ex and not self_recursive(b)]
    # ... and the functions of the crate's private value-carrier types (`Node::left()`, `Halves::new`, `BitPos::mask()`)
    seen = {b.key for b in own}
    own = own + [b for b in private_type_helpers(crate, exclude) if b.key not in seen]
    # ... and private free functions that take the ADT by reference (`fn make_room(w: &mut Writer, n: usize)`): methods
    # written outside the impl block
    seen = {b.key for b in own}
    adt = need_adt(crate, adt_suffix)
    nm = str(adt.get("path") or adt.get("name") or adt_suffix).rsplit("::", 1)[-1]
    pat = _re.compile(r"^&(?:'\w+ )?(?:mut )?(?:[\w:]+::)?%s(?:<.*>)?$" % _re.escape(nm))
    for b in crate.bodies:
        if b.is_closure or b.kind != "Fn" or b.vis == "pub" or b.key in seen or b.key in ex or self_recursive(b):
            continue
        if any(pat.match(str(b.locals[i]["ty"])) for i in range(1, b.arg_count + 1)):
            own.append(b)
    return own


def generic_names(crate, adt_suffix):
    """names of the generic parameters of a type of the crate, in declaration order, as its impls spell them
    (`impl<const WORDS: usize> Bitset<WORDS>` -> ['WORDS']): rules that talk about `N` mean the parameter, not the letter"""
    adt = need_adt(crate, adt_suffix)
    for imp in crate.impls:
        if imp.get("self_adt") != adt["key"]:
            continue
        ty = str(imp.get("self_ty") or "")
        k = ty.find("<")
        if k < 0 or not ty.endswith(">"):
            continue
        parts, depth, cur = [], 0, ""
        for ch in ty[k + 1:-1]:
            if ch == "<":
                depth += 1
            elif ch == ">":
                depth -= 1
            if ch == "," and depth == 0:
                parts.append(cur.strip())
                cur = ""
            else:
                cur += ch
        parts.append(cur.strip())
        if parts and all(_re.fullmatch(r"'?[A-Za-z_][A-Za-z0-9_]*", x_) for x_ in parts):
            return parts
    return []


def private_type_helpers(crate, exclude=()):
    """non-recursive inherent functions of the crate's PRIVATE types (`Halves::new`, `Node::left`, `Link::pick`): value
    carriers introduced by a refactor; they are inlined into the analysis of their callers like private methods"""
    ex = {b.key for b in exclude if b is not None}
    priv = {a["key"] for a in crate.adts if not a.get("pub")}
    own_traits = {str(t.get("path")) for t in (getattr(crate, "traits", None) or [])}
    out = []
    for b in crate.bodies:
        if b.is_closure or b.kind != "AssocFn" or b.key in ex or self_recursive(b):
            continue
        imp = crate.impl_of(b)
        if imp is not None and not imp.get("of_trait") and imp.get("self_adt") in priv:
            out.append(b)
        # ... and their impls of the crate's own traits (`impl LinkRule for BySize`): the one instantiation of a seam
        elif imp is not None and imp.get("self_adt") in priv and str(imp.get("trait") or "") in own_traits and not imp.get("derived"):
            out.append(b)
    return out


def analyser(helpers, **kw):
    inl = frozenset(h.key for h in helpers)
    if not inl:
        return lambda b: analyse(b, **kw)
    return lambda b: analyse(b, inline=inl, **kw)


def helper_callees(crate, b, helpers):
    """helpers reachable from b through direct calls (transitively through other helpers)"""
    hk = {h.key: h for h in helpers}
    out, work = {}, [b]
    while work:
        x = work.pop()
        for cb in [x] + list(crate.closures_of(x)):
            for bb, t in cb.calls():
                k = callee_key(t)
                if k in hk and k not in out:
                    out[k] = hk[k]
                    work.append(hk[k])
    return list(out.values())


def closures_with_helpers(crate, b, helpers):
    out = list(crate.closures_of(b))
    for h in helper_callees(crate, b, helpers):
        out.extend(crate.closures_of(h))
    return out


def allowed_writers(crate, allowed_names, helpers):
    """names of functions that may write: the given ones plus private helpers all of whose callers may"""
    allowed = set(allowed_names)
    callers = {}
    for b in crate.bodies:
        root = b
        while root.is_closure and crate.by_key.get(root.parent) is not None:
            root = crate.by_key[root.parent]
        for bb, t in b.calls():
            callers.setdefault(callee_key(t), set()).add(root.name)
    changed = True
    while changed:
        changed = False
        for h in helpers:
            if h.name not in allowed and callers.get(h.key) and callers[h.key] <= allowed:
                allowed.add(h.name)
                changed = True
    return allowed



_READ_ONLY_METHODS = {"len", "is_empty", "iter", "deref", "index", "as_slice", "as_ptr", "get", "first", "last", "contains", "into_iter", "clone", "to_vec", "eq", "ne", "borrow", "as_ref", "chunks", "windows", "capacity", "split_at", "starts_with", "ends_with", "binary_search", "enumerate"}


def mut_borrow_read_only(body, bb0, idx0):
    """The `&mut place` taken by statement (bb0, idx0) is never written through: the reference (and its
    reborrows / moves into other locals) is only read, reborrowed as shared, or handed to std methods that take
    `&self`.  Conservative: any other use (assignment through it, index_mut / deref_mut, a call of an unknown
    function, storing it in an aggregate) answers False."""
    st0 = body.blocks[bb0]["stmts"][idx0]
    aliases = {st0["place"]["l"]} if not st0["place"]["p"] else None
    if aliases is None:
        return False
    changed = True

    def rooted(pl):
        return pl["l"] in aliases

    def op_local(o):
        return o["place"]["l"] if isinstance(o, dict) and o.get("k") in ("copy", "move") and not o["place"]["p"] else None

    for _ in range(6):
        if not changed:
            break
        changed = False
        for bb, idx, s in body.statements():
            if s["k"] != "assign" or (bb, idx) == (bb0, idx0):
                continue
            rv = s["rv"]
            src = None
            if rv["k"] == "use":
                src = op_local(rv.get("op"))
            elif rv["k"] == "ref" and rv["place"]["l"] in aliases and rv["bk"] != "shared" and all(e[0] == "deref" for e in rv["place"]["p"]):
                src = rv["place"]["l"]
            elif rv["k"] == "cast":
                src = op_local(rv.get("op"))
            if src in aliases and not s["place"]["p"] and s["place"]["l"] not in aliases:
                aliases.add(s["place"]["l"])
                changed = True
    for bb, idx, s in body.statements():
        if s["k"] != "assign":
            continue
        pl = s["place"]
        if rooted(pl) and any(e[0] == "deref" for e in pl["p"]):
            return False  # write through the reference
        rv = s["rv"]
        if rv["k"] == "ref" and rooted(rv["place"]) and rv["bk"] != "shared" and not all(e[0] == "deref" for e in rv["place"]["p"]):
            return False  # &mut (*r).something: a mutable view of a part
        if rv["k"] == "agg" and any(op_local(o) in aliases for o in rv.get("ops", [])):
            return False
    for bb, blk in enumerate(body.blocks):
        t = blk["term"]
        if t["k"] != "call":
            if t["k"] == "asm" and any(op_local(o.get("op")) in aliases for o in t.get("operands", [])):
                return False
            continue
        for a in t["args"]:
            if op_local(a) in aliases:
                if t["fn"].get("name") not in _READ_ONLY_METHODS or "indirect" in t["fn"]:
                    return False
    return True


def cell_origin(evs, cell):
    """the caller place a memory cell stands for (`helper(&mut local)` inlined with the "mutlocal" feature): the
    i-th argument of the inlined call with the cell's uid"""
    if not (isinstance(cell, tuple) and cell and cell[0] == "cell"):
        return None
    for e in evs:
        if e.kind == "call" and e.extra.get("inlined") and e.extra.get("uid") == cell[1] and cell[2] < len(e.args):
            a = e.args[cell[2]]
            if isinstance(a, tuple) and a and a[0] == "ref":
                return a[1]
    return None


IMPURE_PREFIX = ("std::time", "std::env", "std::io", "std::fs", "std::net", "std::process", "std::thread", "std::sync", "std::cell", "std::hash::RandomState", "std::collections::hash_map::RandomState")


def impure_constructs(b):
    """what makes a function body more than a function of its arguments: statics, thread-locals, clocks / IO / interior
    mutability from std, unsafe code, inline asm (names, for the report)"""
    bad = []
    if b.j.get("unsafe"):
        bad.append("unsafe fn")
    for ub in b.j.get("unsafe_blocks", []):
        if ub.get("source") != "CompilerGenerated":
            bad.append("unsafe block")
    for bb, blk in enumerate(b.blocks):
        if blk["cleanup"]:
            continue
        if blk["term"]["k"] == "asm":
            bad.append("inline asm")
        for s in blk["stmts"]:
            if s["k"] == "assign":
                rv = s["rv"]
                if rv["k"] == "tlref":
                    bad.append("thread-local")
                for o in [rv.get("op"), rv.get("a"), rv.get("b")] + list(rv.get("ops", [])):
                    if isinstance(o, dict) and o.get("k") == "const" and "static" in o:
                        bad.append("static")
        t = blk["term"]
        if t["k"] == "call" and "indirect" not in t["fn"]:
            p = (t["fn"].get("resolved") or t["fn"]).get("path") or ""
            p2 = t["fn"].get("path") or ""
            if p.startswith(IMPURE_PREFIX) or p2.startswith(IMPURE_PREFIX) or "SystemTime" in p or "Instant" in p:
                bad.append("call %s" % (p or p2))
            for a in t["args"]:
                if a.get("k") == "const" and "static" in a:
                    bad.append("static")
    return sorted(set(bad))


def structural_clone(crate, adt):
    """(ok, why) for the Clone impl of `adt`: derived, or hand-written such that clone() builds the value from a copy of every
    field of self, and clone_from (when provided) gives every field of self the corresponding field of the source on
    every path: by `self.f.clone_from(&source.f)`, by `self.f = <copy of source.f>`, or by `*self = source.clone()`.
    A field paired with a different field of the source, or left out on some path, is not structural."""
    from .absint import strip_mem
    imps = [i for i in crate.impls if i.get("of_trait") and str(i.get("trait") or "").endswith("clone::Clone") and i.get("self_adt") == adt["key"]]
    if not imps:
        return False, "no Clone impl"
    imp = imps[0]
    if imp.get("derived"):
        return True, "derived"
    nf = len(fields_of(adt))
    items = {it["name"]: crate.by_key.get(it["key"]) for it in imp["items"]}

    def copy_of(v, base, i):
        """v is a copy of field i of *base"""
        v = strip_mem(v)
        want = ("load", None, ("field", base, i))
        seen = 0
        while isinstance(v, tuple) and v and v[0] == "call" and str(v[1]).rsplit("::", 1)[-1] in ("clone", "to_vec", "to_owned", "into") and seen < 4:
            a = [x for x in v[2] if not (isinstance(x, tuple) and x and x[0] == "mem")]
            if not a:
                return False
            v = a[0]
            if isinstance(v, tuple) and v and v[0] == "ref":
                v = ("load", None, v[1]) if v[1][0] != "constval" else v[1][1]
            seen += 1
        return v == want

    cb = items.get("clone")
    if cb is None:
        return False, "no clone method"
    I = analyse(cb)
    selfp = ("deref", ("param", 1, I.names.get(1)))
    for st in I.final_states:
        r = ret_term(st)
        if strip_mem(r) == ("load", None, selfp):
            continue   # *self
        if not (isinstance(r, tuple) and r and r[0] == "agg" and isinstance(r[1], tuple) and r[1][0] == "adt" and len(r[2]) == nf):
            return False, "clone returns %s" % tstr(r)[:80]
        for i, fv in enumerate(r[2]):
            if str(fields_of(adt)[i].get("ty", "")).split("<")[0].endswith("PhantomData"):
                continue   # a zero-sized marker: every value of it is the same value
            if not copy_of(fv, selfp, i):
                return False, "field %d of the copy is %s" % (i, tstr(fv)[:60])
    fb = items.get("clone_from")
    if fb is not None:
        I = analyse(fb)
        dst = ("deref", ("param", 1, I.names.get(1)))
        src = ("deref", ("param", 2, I.names.get(2)))
        def fld(x, base):
            """field index when x is a reference into (a part of) a field of *base"""
            if not (isinstance(x, tuple) and x and x[0] == "ref"):
                return None
            pl = x[1]
            while isinstance(pl, tuple) and pl and pl[0] in ("index", "range", "slicefrom", "deref") and len(pl) > 1 and pl != base:
                pl = pl[1]
            return pl[2] if isinstance(pl, tuple) and pl and pl[0] == "field" and pl[1] == base else None

        for st in I.final_states + [s_ for l_ in I.backedge_states.values() for s_ in l_][:0]:
            done = set()
            proj_touch, src_read = set(), set()
            for e in st.event_list():
                if e.kind == "store":
                    pl = e.place
                    if pl == dst:
                        # *self = source.clone()
                        v = strip_mem(e.val)
                        if v == ("load", None, src):
                            done |= set(range(nf))
                            continue
                        if v[0] == "call" and str(v[1]).endswith("::clone") and [x for x in v[2] if x[0] != "mem"][:1] in ([("ref", src)], [src]):
                            done |= set(range(nf))
                            continue
                        return False, "clone_from assigns *self := %s" % tstr(e.val)[:60]
                    if pl[0] == "field" and pl[1] == dst:
                        if not copy_of(e.val, src, pl[2]):
                            return False, "clone_from sets field %d to %s" % (pl[2], tstr(e.val)[:60])
                        done.add(pl[2])
                elif e.kind == "call":
                    tys = e.extra.get("argtys") or []

                    def fld(x, base):
                        """field index when x is a reference into (a part of) a field of *base"""
                        if not (isinstance(x, tuple) and x and x[0] == "ref"):
                            return None
                        pl = x[1]
                        while isinstance(pl, tuple) and pl and pl[0] in ("index", "range", "slicefrom", "deref") and len(pl) > 1 and pl != base:
                            pl = pl[1]
                        return pl[2] if isinstance(pl, tuple) and pl and pl[0] == "field" and pl[1] == base else None

                    touches = [fld(x, dst) for n_, x in enumerate(e.args) if fld(x, dst) is not None and (n_ >= len(tys) or str(tys[n_]).startswith("&mut"))]
                    if not touches:
                        continue   # (reading a field of self — len(), is_empty() — changes nothing)
                    nm = e.extra.get("name")
                    if nm in ("deref_mut", "as_mut_slice", "as_mut", "index_mut", "iter_mut", "borrow_mut"):
                        proj_touch.update(touches)
                        continue   # a projection: what is done through it shows up as its own call
                    froms = [fld(x, src) for x in e.args if fld(x, src) is not None]
                    if nm in ("clone_from", "clone_from_slice", "copy_from_slice") and len(touches) == 1 and froms == touches:
                        done.add(touches[0])
                    else:
                        return False, "clone_from hands field %s of self to %s with field %s of the source" % (touches, nm, froms)
            # a field copied element by element (`for (d, s) in self.f.iter_mut().zip(source.f.iter()) { d.clone_from(s) }`):
            # the same field of both sides is walked and nothing else of the source is read into it
            for e in st.event_list():
                if e.kind == "call" and e.extra.get("name") in ("iter", "deref", "as_slice", "as_ref", "index"):
                    src_read.update(x for x in (fld(a_, src) for a_ in e.args) if x is not None)
            def _body_events(s_):
                evs_ = s_.event_list()
                li_ = max([k_ for k_, e_ in enumerate(evs_) if e_.kind == "loop"] or [len(evs_)])
                return evs_[li_:]

            loop_copies = any(e.kind == "call" and e.extra.get("name") in ("clone_from", "clone", "clone_from_slice", "copy_from_slice") for l_ in I.backedge_states.values() for s_ in l_ for e in _body_events(s_))
            if loop_copies:
                done |= (proj_touch & src_read)
            done |= {i for i in range(nf) if str(fields_of(adt)[i].get("ty", "")).split("<")[0].endswith("PhantomData")}
            if done != set(range(nf)):
                return False, "clone_from leaves field(s) %s of self as they were on some path" % sorted(set(range(nf)) - done)
    return True, "hand-written, field by field"


def structural_clone_bodies(crate, adt):
    """keys of the clone / clone_from bodies of a hand-written Clone impl that is verified to be field by field: packs
    treat them like a derived impl (they may build the aggregate and write its private fields)"""
    try:
        ok, _why = structural_clone(crate, adt)
    except Exception:  # noqa: BLE001
        return set()
    if not ok:
        return set()
    out = set()
    for i in crate.impls:
        if i.get("of_trait") and str(i.get("trait") or "").endswith("clone::Clone") and i.get("self_adt") == adt["key"] and not i.get("derived"):
            out |= {it["key"] for it in i["items"]}
    return out


def _trait_impl(crate, adt, suffix):
    for i in crate.impls:
        if i.get("of_trait") and str(i.get("trait") or "").endswith(suffix) and i.get("self_adt") == adt["key"]:
            return i
    return None


def structural_eq(crate, adt):
    """(ok, why) for PartialEq of `adt`: derived, or a hand-written `eq` that is true exactly when every field of self equals
    the same field of the other operand (operands of each comparison in either order; read-only private helpers such as a
    debug check are followed)"""
    imp = _trait_impl(crate, adt, "cmp::PartialEq")
    if imp is None:
        return False, "no PartialEq impl"
    if imp.get("derived"):
        return True, "derived"
    items = {it["name"]: crate.by_key.get(it["key"]) for it in imp["items"]}
    if "ne" in items:
        return False, "ne is overridden"
    b = items.get("eq")
    if b is None:
        return False, "no eq method"
    nf = len(fields_of(adt))
    helpers = [m for m in crate.bodies if not m.is_closure and m.kind in ("Fn", "AssocFn") and m.vis != "pub" and not self_recursive(m) and m.key != b.key]
    I = analyser(helpers)(b)
    p1, p2 = ("deref", ("param", 1, I.names.get(1))), ("deref", ("param", 2, I.names.get(2)))
    from .absint import strip_mem

    def field_cmp(t):
        """(i, negated) when t compares field i of the two operands"""
        t = strip_mem(t)
        if not isinstance(t, tuple) or not t:
            return None
        if t[0] in ("bin", "fcmp") and t[1] in ("Eq", "Ne"):
            xs = [t[2], t[3]]
            neg = t[1] == "Ne"
        elif t[0] == "call" and "PartialEq" in str(t[1]) and str(t[1]).endswith(("::eq", "::ne")):
            xs = [x for x in t[2] if not (isinstance(x, tuple) and x and x[0] == "mem")]
            xs = [("load", None, x[1]) if isinstance(x, tuple) and x and x[0] == "ref" else x for x in xs]
            neg = str(t[1]).endswith("::ne")
        else:
            return None
        if len(xs) != 2:
            return None
        for i in range(nf):
            a_, b_ = ("load", None, ("field", p1, i)), ("load", None, ("field", p2, i))
            if xs in ([a_, b_], [b_, a_]):
                return i, neg
        return None

    for st in I.final_states:
        known = {}
        for f in st.facts:
            if f[0] in ("eq", "ne") and f[2] in (0, 1):
                fc = field_cmp(f[1])
                if fc is not None:
                    truth = (f[0] == "eq") == bool(f[2])
                    known[fc[0]] = truth != fc[1]
        r = ret_term(st)
        if r == ("int", 1) or r == ("int", True):
            if not all(known.get(i) is True for i in range(nf)):
                return False, "eq returns true on a path that has not found every field equal"
        elif r == ("int", 0) or r == ("int", False):
            if not any(known.get(i) is False for i in range(nf)):
                return False, "eq returns false on a path that has not found a field different"
        else:
            fc = field_cmp(r)
            if fc is None or fc[1]:
                return False, "eq returns %s" % tstr(r)[:80]
            if not all(known.get(i) is True for i in range(nf) if i != fc[0]):
                return False, "eq returns the comparison of field %d without the other fields being equal" % fc[0]
    return True, "hand-written, field by field"


def structural_hash(crate, adt):
    """(ok, why) for Hash of `adt`: derived, or `hash` feeds every field, in order, to the hasher and nothing else"""
    imp = _trait_impl(crate, adt, "hash::Hash")
    if imp is None:
        return False, "no Hash impl"
    if imp.get("derived"):
        return True, "derived"
    items = {it["name"]: crate.by_key.get(it["key"]) for it in imp["items"]}
    b = items.get("hash")
    if b is None or "hash_slice" in items:
        return False, "no plain hash method"
    nf = len(fields_of(adt))
    I = analyse(b)
    p1 = ("deref", ("param", 1, I.names.get(1)))
    for st in I.final_states:
        hs = [e for e in st.event_list() if e.kind == "call" and e.extra.get("name") == "hash"]
        got = [e.args[0][1][2] if isinstance(e.args[0], tuple) and e.args[0][0] == "ref" and isinstance(e.args[0][1], tuple) and e.args[0][1][0] == "field" and e.args[0][1][1] == p1 else None for e in hs]
        if got != list(range(nf)):
            return False, "hash feeds fields %s" % got
    return True, "hand-written, every field in order"


def is_readonly_check(crate, b, cell_reads=False):
    """a function that cannot influence its caller's values: returns (), takes nothing by &mut, and touches no static,
    thread-local, interior mutability, IO or unsafe code (a `debug_check(&self)` made of assertions); it can only panic"""
    if b is None or b.is_closure:
        return False
    if str(b.locals[0]["ty"]) != "()":
        return False
    if any(str(b.locals[i]["ty"]).startswith("&mut") for i in range(1, b.arg_count + 1)):
        return False
    bad = impure_constructs(b)
    if cell_reads:
        # reading a Cell it was handed (`cell.get()`) observes state without changing it
        bad = [x for x in bad if not (x.startswith("call std::cell::Cell::<") and x.endswith(">::get"))]
    return not bad
