#!/usr/bin/env python3
"""Fill DESIGN.md between <!-- REFAC-BEGIN --> and <!-- REFAC-END --> from refactors/*/meta.json."""
import glob, json, os, re
V = os.path.dirname(os.path.dirname(os.path.abspath(__file__)))
rows = []
for d in sorted(glob.glob(os.path.join(V, "refactors", "*"))):
    mp = os.path.join(d, "meta.json")
    if not os.path.exists(mp):
        continue
    m = json.load(open(mp))
    files = sorted(set(re.findall(r"^\+\+\+ b/(\S+)", open(os.path.join(d, "patch.diff")).read(), re.M)))
    what = m.get("summary") or ""
    if not what:
        nf = os.path.join(d, "notes.md")
        if os.path.exists(nf):
            txt = [l.strip() for l in open(nf).read().splitlines() if l.strip() and not l.startswith("#")]
            what = (txt[0] if txt else "")[:160]
    res = "silent" if m.get("silent") else "**alarm**: " + ", ".join(sorted(set(k.split("|")[0] for k in m.get("alarm_keys", []))))
    rows.append("| %s | %s | %s | %s | %s |" % (m["refactor"], ", ".join(f.replace("rlib/", "") for f in files), what.replace("|", "/"), " ".join(m.get("checks_run", [])), res))
silent = sum(1 for r in rows if r.endswith("| silent |"))
out = ["| change | files | what | checks run | result |", "|---|---|---|---|---|"] + rows + ["", "%d behaviour-preserving changes, %d silent, %d raise an alarm (all triaged below)." % (len(rows), silent, len(rows) - silent)]
p = os.path.join(V, "DESIGN.md")
s = open(p).read()
a, b = s.index("<!-- REFAC-BEGIN -->"), s.index("<!-- REFAC-END -->")
s = s[:a] + "<!-- REFAC-BEGIN -->\n" + "\n".join(out) + "\n" + s[b:]
open(p, "w").write(s)
print(len(rows), "refactors,", silent, "silent")
