"""C05 — DSU: union by size as an entailed fact, size bookkeeping, return value, reset coverage,
find shape, who-may-write.  See DESIGN.md §4 C05."""
from .. import util, zones
from ..absint import subterms, tstr, mk_int
from ..core import Anchor

PID = "C05"
LEVEL = "other"
CRATES = ["rlib_dsu"]
RELEASE = True
NO_HIDDEN_STATE = ['rlib_dsu']   # driver rule STATE: these crates are plain data structures / functions
ARMED = True
ENGINES = ["E1", "E3", "E4a"]
TECHNIQUE = "path-sensitive term-flow abstract interpretation of MIR + difference-bound entailment of size[x] <= size[y] at the link store; who-may-write and index-provenance rules"
LEVEL_TEXT = (
    "Structural necessary conditions of the property decided on every path of every DSU method in both build profiles "
    "(union-by-size as an entailed relational fact, size bookkeeping, return value, reset coverage, find shape, who-may-write). "
    "It does not decide the connectivity relation over histories; the log2 depth bound follows from D1+D2 by the classical theorem."
)
LEVEL_NOTE = "trusted: rustc MIR construction, the exporter, the std axiom table (Vec index, mem::swap, Range iteration); assumes no usize overflow of sizes"
EXPLANATION = (
    "Static rules over the MIR of rlib_dsu, decided on every path of every DSU method: D1 at the store "
    "parent[x]=y in `un` the branch facts of the path entail size[x] <= size[y] (difference-bound closure; "
    "swap / tuple swap / mirrored if-else are the same input); D2 the size that grows is the new root's and grows by "
    "the other root's size; D3 `false` is returned exactly on the roots-equal path and before any store, `true` only "
    "after both stores; D4 sizes are only read/written at indices that are results of find; D5 new/reset initialise "
    "both arrays over 0..n with parent[i]=i and size[i]=1; D6 find (recursive or iterative): parent stores only at indices on v's "
    "parent chain and only of roots (a find result or a chain term r with the fact parent[r]==r), the returned value is such a root, "
    "recursion only on parent[x] under parent[x]!=x; D7 only new/reset/find/un write the two arrays. With D1+D2 the log2 "
    "depth bound is the classical union-by-size theorem (cited, not re-proved). NOT decided: the connectivity "
    "relation over operation histories as a value statement."
)
UNDECIDED = ["connectivity relation over histories (value-level)", "log2 depth bound itself: follows from D1+D2 by the cited union-by-size theorem"]
ASSUMPTIONS = ["no usize overflow of component sizes (checked in dev profile by the compiler-inserted assertion)", "Vec indexing semantics (std axiom table)"]
FIXTURES = [
    ("c05_bad_noswap_big", "bad", ["D1"]),
    ("c05_bad_size_wrong_root", "bad", ["D2"]),
    ("c05_bad_size_no_find", "bad", ["D4"]),
    ("c05_bad_reset_only_p", "bad", ["D5"]),
    ("c05_bad_reset_conditional", "bad", ["D5"]),
    ("c05_good_reset_clear_resize", "good", []),
    ("c05_good_reset_fill", "good", []),
    ("c05_good_ifelse", "good", []),
    ("c05_good_find_iterative", "good", []),
    ("c05_bad_find_iter_one_step", "bad", ["D6"]),
    ("c05_bad_find_iter_store_reversed", "bad", ["D6"]),
    ("c05_good_link_helper", "good", []),
    ("c05_bad_link_pub_caller", "bad", ["D7", "D4"]),
    ("c05_bad_link_helper_reversed", "bad", ["D1"]),
]


def roles(crate):
    roles.forwarder = None
    adt = util.need_adt(crate, "DSU")
    vecs = util.field_index_by_type(adt, lambda t: t.replace("alloc::", "std::") == "std::vec::Vec<usize>")
    if len(vecs) != 2:
        raise Anchor("DSU is expected to have exactly two Vec<usize> fields, found %d" % len(vecs))
    find = util.need_body(crate, "DSU::par")
    # `par` may be a plain forwarder to a private recursive worker: the worker is then the find function, and the
    # forwarder is judged inlined into its callers like any other helper
    if not util.self_recursive(find):
        I0 = util.analyse(find)
        v0 = ("param", 2, I0.names.get(2))
        workers = set()
        fwd = bool(I0.final_states)
        for st in I0.final_states:
            calls = [e for e in util.events_of(st, "call") if crate.by_key.get((e.fn.get("resolved") or e.fn).get("def")) is not None]
            stores = [e for e in st.event_list() if e.kind == "store"]
            if len(calls) != 1 or stores or util.ret_term(st) != calls[0].res or len(calls[0].args) != 2 or calls[0].args[1] != v0:
                fwd = False
                continue
            w = crate.by_key[(calls[0].fn.get("resolved") or calls[0].fn).get("def")]
            if w.vis == "pub" or not util.self_recursive(w) or w not in util.methods_of(crate, "DSU"):
                fwd = False
            workers.add(w.key)
        if fwd and len(workers) == 1 and not I0.loops:
            roles.forwarder = find
            find = crate.by_key[workers.pop()]
    # parent field = the array find walks: the field it stores into, or (a find without compression)
    # the only array it reads
    I = util.analyse(find)
    pf, rf = set(), set()
    for st in I.all_end_states():
        for ev in st.event_list():
            for f in vecs:
                if ev.kind == "store" and util.index_into_field(ev.place, f) is not None:
                    pf.add(f)
                if ev.kind == "call" and ev.extra.get("name") in ("index", "index_mut") and ev.args and ev.args[0][0] == "ref" and ev.args[0][1][0] == "field" and ev.args[0][1][2] == f:
                    rf.add(f)
    cand = pf or rf
    if len(cand) != 1:
        raise Anchor("cannot identify the parent array: find stores into fields %s, reads %s" % (sorted(pf), sorted(rf)))
    p = cand.pop()
    sz = [f for f in vecs if f != p][0]
    return adt, find, p, sz


def _cmp_call(t):
    """`PartialOrd::gt(&x, &y)` reached through a helper generic over the key type (`order_by(a, b, |r| self.size[r])`): the
    keys are the usize sizes, so the call is the integer comparison of the referents"""
    if isinstance(t, tuple) and t and t[0] == "call" and "PartialOrd" in str(t[1]) and str(t[1]).rsplit("::", 1)[-1] in ("lt", "le", "gt", "ge"):
        a = [x for x in t[2] if not (isinstance(x, tuple) and x and x[0] == "mem")]
        if len(a) == 2 and all(isinstance(x, tuple) and x and x[0] == "ref" for x in a):
            vals = [x[1][1] if x[1][0] == "constval" else ("load", ("m0",), x[1]) for x in a]
            op = {"lt": "Lt", "le": "Le", "gt": "Gt", "ge": "Ge"}[str(t[1]).rsplit("::", 1)[-1]]
            return ("bin", op, vals[0], vals[1])
    return t


def helpers_of(crate, find):
    """private, non-recursive inherent methods of DSU: judged in the context of their callers (inlined)"""
    hs = [b for b in util.methods_of(crate, "DSU") if b.vis != "pub" and b.key != find.key and not util.self_recursive(b)]
    if roles.forwarder is not None:
        hs.append(roles.forwarder)
    # private free functions too (`order_by(a, b, |x| self.size[x])`: a generic helper taking the key as a closure)
    hs += [b for b in crate.bodies if not b.is_closure and b.kind == "Fn" and b.container is None and b.vis != "pub" and not util.self_recursive(b) and b.key != find.key]
    return hs


def ev_loc(crate, body, ev):
    inn = (ev.extra or {}).get("in") if isinstance(ev.extra, dict) else None
    if inn:
        for b in crate.bodies:
            if b.path == inn:
                return b.loc(ev.bb, ev.idx) if ev.idx is not None else b.loc(ev.bb)
    return body.loc(ev.bb, ev.idx) if ev.idx is not None else body.loc(ev.bb)


def check(col, prog, tier, profile, fixture=None):
    crate = prog.crate(fixture or "rlib_dsu")
    adt, find, P, SZ = roles(crate)
    sfx = "" if profile == "dev" else "@" + profile
    un = util.need_body(crate, "DSU::un")
    fk = util.fkey

    col.rule("D1" + sfx, "at parent[x]=y in un: path facts entail size[x] <= size[y]", floor=2)
    col.rule("D2" + sfx, "size[y] += size[x] for the same (x, y) as the parent store, before returning true", floor=2)
    col.rule("D3" + sfx, "false iff roots equal and nothing stored; true only after both stores", floor=3)
    col.rule("D4" + sfx, "size array indexed only by results of find (outside new/reset)", floor=3)
    col.rule("D5" + sfx, "new/reset initialise parent[i]=i and size[i]=1 for all i<n", floor=4)
    col.rule("D6" + sfx, "find: recursion under parent[v]!=v, stores recursion result, returns parent[v]", floor=3)
    col.rule("D7" + sfx, "parent/size arrays written only by new, reset, find, un", floor=1)

    helpers = helpers_of(crate, find)
    A = util.analyser(helpers, features=("fncall", "comb"))
    I = A(un)
    find_calls = lambda st: [e for e in util.events_of(st, "call") if e.callee == find.path or (e.fn.get("resolved") or e.fn).get("def") == find.key]
    for n, st in enumerate(I.final_states):
        evs = st.event_list()
        fc = find_calls(st)
        pstores = [e for e in evs if e.kind == "store" and util.index_into_field(e.place, P) is not None]
        sstores = [e for e in evs if e.kind == "store" and util.index_into_field(e.place, SZ) is not None]
        ret = util.ret_term(st)
        pathkey = "path%d" % n
        # roots: results of find on the two index parameters
        roots = [e.res for e in fc]
        # ---- D3
        if ret[0] == "bin" and ret[1] in ("Ne", "Eq") and len(ret) == 4:
            # `u != v` returned as an expression: the path facts decide it
            for rel, val in (("Ne", 1), ("Eq", 0)):
                if util.entails(I, st.facts, rel, ret[2], ret[3]):
                    ret = mk_int(val if ret[1] == "Ne" else 1 - val)
                    break
        if ret == mk_int(0):
            ok = not pstores and not sstores and len(roots) >= 2 and util.entails(I, st.facts, "Eq", roots[0], roots[1])
            if ok:
                col.ok("D3" + sfx, un.loc(), "%s|ret-false" % fk(un), "no stores; facts entail root(u)==root(v)")
            else:
                col.violation("D3" + sfx, "%s|ret-false" % fk(un), un.loc(), "a path returns false although the roots are not known equal, or after modifying the forest", {"facts": [tstr(f[1]) for f in st.facts], "path": st.path_list()})
        elif ret == mk_int(1):
            ok = len(pstores) == 1 and len(sstores) == 1 and len(roots) >= 2 and util.entails(I, st.facts, "Ne", roots[0], roots[1])
            if ok:
                col.ok("D3" + sfx, un.loc(), "%s|ret-true|%s" % (fk(un), pathkey), "one parent store, one size store, roots differ")
            else:
                col.violation("D3" + sfx, "%s|ret-true" % fk(un), un.loc(), "a path returns true without exactly one parent store and one size store under root(u)!=root(v)", {"path": st.path_list(), "pstores": len(pstores), "sstores": len(sstores)})
        else:
            col.violation("D3" + sfx, "%s|ret-symbolic" % fk(un), un.loc(), "return value of un is not a constant on this path: %s" % tstr(ret))
        # ---- D1 / D2
        for ev in pstores:
            x = util.index_into_field(ev.place, P)
            y = ev.val
            base = ev.place[1][1]
            # memory before any store of this path
            first = [e for e in evs if e.kind == "store"][0]
            mem0 = first.state[1]
            szx = I.load(mem0, ("index", ("field", base, SZ), x))
            szy = I.load(mem0, ("index", ("field", base, SZ), y))
            szx, szy = _nf(szx), _nf(szy)
            facts = frozenset(("eq" if f[0] == "eq" else "ne", _nf(_cmp_call(f[1])), f[2]) for f in st.facts)
            ok = zones.entails(facts, "Le", szx, szy, I.tys)
            loc = ev_loc(crate, un, ev)
            if ok:
                col.ok("D1" + sfx, loc, "%s|parent-store|%s" % (fk(un), pathkey), "entailed: %s <= %s" % (tstr(szx), tstr(szy)))
            else:
                col.violation("D1" + sfx, "%s|parent-store" % fk(un), loc, "parent[%s] = %s is reached on a path whose branch facts do not entail size[%s] <= size[%s]: the larger tree can be hung below the smaller one (depth bound lost)" % (tstr(x), tstr(y), tstr(x), tstr(y)), {"facts": [(f[0], tstr(f[1]), f[2]) for f in st.facts], "path": st.path_list()})
            # D2
            ok2 = False
            why = "no size store"
            for se in sstores:
                k = util.index_into_field(se.place, SZ)
                memb = se.state[1]
                a = _nf(I.load(memb, ("index", ("field", base, SZ), y)))
                b = _nf(I.load(memb, ("index", ("field", base, SZ), x)))
                want = ("bin", "Add", a, b)
                if k == y and util.lin_equal(_nf(se.val), want):
                    ok2 = True
                else:
                    why = "size[%s] := %s" % (tstr(k), tstr(se.val))
            if ok2:
                col.ok("D2" + sfx, loc, "%s|size-store|%s" % (fk(un), pathkey), "size[y] := size[y] + size[x]")
            else:
                col.violation("D2" + sfx, "%s|size-store" % fk(un), loc, "after parent[x]=y the size bookkeeping is not size[y] += size[x] (%s)" % why)

    # ---- D4: every index into the size array outside new/reset is a find result
    exempt = {"new", "reset"} | {h.name for h in helpers}
    for b in util.methods_of(crate, "DSU"):
        if b.name in exempt:
            continue
        Ib = A(b)
        seen = set()
        for st, ev in Ib.call_events(lambda e: e.extra.get("name") in ("index", "index_mut")):
            base = ev.args[0]
            if base[0] != "ref":
                continue
            pl = base[1]
            if not (pl[0] == "field" and pl[2] == SZ):
                continue
            idx = ev.args[1]
            k = (ev.bb, idx)
            if k in seen:
                continue
            seen.add(k)
            isfind = idx[0] == "call" and idx[1] in (find.path, find.key)
            loc = ev_loc(crate, b, ev)
            if isfind:
                col.ok("D4" + sfx, loc, "%s|size[%s]" % (fk(b), tstr(idx)), "index is a result of find")
            else:
                col.violation("D4" + sfx, "%s|size-index-not-root" % fk(b), loc, "size array indexed by %s which is not a result of find: sizes are only meaningful at roots" % tstr(idx))

    # ---- D5
    _check_init(col, crate, "D5" + sfx, P, SZ)

    # ---- D6 find
    _check_find(col, crate, "D6" + sfx, find, P, SZ)
    chk_b = util.opt_body(crate, "DSU::check")
    if chk_b is not None:
        Ic = A(chk_b)
        for st in Ic.final_states:
            fc = [e for e in util.events_of(st, "call") if (e.fn.get("resolved") or e.fn).get("def") == find.key]
            ret = util.ret_term(st)
            ok = len(fc) == 2 and ret == ("bin", "Eq", fc[0].res, fc[1].res) and {fc[0].args[1][1], fc[1].args[1][1]} == {2, 3}
            if not ok and len(fc) == 1 and ret == mk_int(1) and fc[0].args[1][0] == "param" and fc[0].args[1][1] in (2, 3):
                # fast path: find(u) == v settles it — a find result is a root, so v is its own root and find(v) == v
                other = ("param", 5 - fc[0].args[1][1], Ic.names.get(5 - fc[0].args[1][1]))
                ok = util.entails(Ic, st.facts, "Eq", fc[0].res, other)
            if ok:
                col.ok("D6" + sfx, chk_b.loc(), "%s|compares-two-finds" % fk(chk_b), "check == (find(u) == find(v))")
            else:
                col.violation("D6" + sfx, "%s|compares-two-finds" % fk(chk_b), chk_b.loc(), "check must compare find(u) with find(v), got %s" % tstr(ret))
    size_b = util.opt_body(crate, "DSU::size")
    if size_b is not None:
        Is = A(size_b)
        for st in Is.final_states:
            ret = _nf(util.ret_term(st))
            ok = ret[0] == "load" and util.index_into_field(ret[2], SZ) is not None and ret[2][2][0] == "call" and ret[2][2][1] in (find.path, find.key)
            # ... of the vertex asked about: `self.par(0)` answers with the size of another component
            fargs = [x for x in ret[2][2][2] if not (isinstance(x, tuple) and x and x[0] == "mem")] if ok else []
            ok = ok and len(fargs) == 2 and fargs[1] == ("param", 2, Is.names.get(2))
            if ok:
                col.ok("D4" + sfx, size_b.loc(), "%s|returns-size-of-root" % fk(size_b), tstr(ret))
            else:
                col.violation("D4" + sfx, "%s|returns-size-of-root" % fk(size_b), size_b.loc(), "size(v) must return size[find(v)], got %s" % tstr(ret))

    # ---- D7 who may write
    allowed = {"new", "reset", find.name, "un"}
    # a private helper may write when every caller (transitively) may
    callers = {}
    for b in crate.bodies:
        for bb, t in b.calls():
            k = util.callee_key(t)
            root = b if not b.is_closure else crate.by_key.get(b.parent, b)
            callers.setdefault(k, set()).add(root.name)
    changed = True
    while changed:
        changed = False
        for h in helpers:
            if h.name not in allowed and callers.get(h.key) and callers[h.key] <= allowed:
                allowed.add(h.name)
                changed = True
    writers = set()
    clone_ok = util.structural_clone_bodies(crate, adt)   # a hand-written Clone verified to copy field by field
    for b in crate.bodies:
        imp = crate.impl_of(b)
        if (imp is not None and imp.get("derived")) or b.key in clone_ok:
            continue
        for bb, idx, s in b.statements():
            if s["k"] != "assign":
                continue
            rv = s["rv"]
            pls = [s["place"]]
            if rv["k"] == "ref" and rv["bk"] == "mut":
                pls.append(rv["place"])
            for pl in pls:
                for e in pl["p"]:
                    if e[0] == "field" and e[1] in (P, SZ) and e[3].replace("alloc::", "std::") == "std::vec::Vec<usize>":
                        if pl is s["place"] and not any(x[0] == "deref" for x in pl["p"]):
                            continue
                        writers.add(b.name)
                        if b.name not in allowed:
                            col.violation("D7" + sfx, "%s|writes-array" % fk(b), b.loc(bb, idx), "%s takes a mutable borrow of / assigns a DSU array; only new, reset, find, un (and private helpers called only from them) may" % b.path)
    col.ok("D7" + sfx, "-", "writers=%s" % ",".join(sorted(writers)), "mutable accesses of the arrays only in %s" % sorted(writers))


def _nf(t):
    return t


def _check_find(col, crate, rid, find, P, SZ):
    """find, recursive or iterative.  chain(v) = {v} + parent loads at chain terms + loop variables whose entry
    and back-edge values are chain terms + find(chain term).  Rules on every path (final and back-edge states):
    no size store; every parent store is at a chain index and stores a ROOT (a find() result on a chain term, or a
    chain term r with the path fact parent[r] == r); the returned value is a root; a recursive call is made on
    parent[v] under parent[v] != v."""
    fk = util.fkey
    If = util.analyser([h for h in helpers_of(crate, find) if h is not roles.forwarder])(find)
    v = ("param", 2, If.names.get(2))
    selfp = ("deref", ("param", 1, If.names.get(1)))
    headof = {}
    for h in If.loops:
        headof[If.uid(h)] = h

    def pidx(t):
        """t == load(_, self.p[i]) -> i"""
        if t[0] == "load":
            return util.index_into_field(t[2], P)
        return None

    def is_find(t):
        return t[0] == "call" and t[1] in (find.path, find.key)

    def chain(t, seen=None):
        seen = set() if seen is None else seen
        if t == v:
            return True
        i = pidx(t)
        if i is not None:
            return chain(i, seen)
        if is_find(t):
            return chain(t[2][1], seen)
        if t[0] == "phi" and t[1] in headof:
            if t in seen:
                return True
            seen.add(t)
            h = headof[t[1]]
            vals = [env.get(t[2]) for env in If.loop_entry.get(h, [])] + [st.env.get(t[2]) for st in If.backedge_states.get(h, [])]
            return bool(vals) and all(x is not None and chain(x, seen) for x in vals)
        return False

    def root(t, facts):
        if is_find(t) and chain(t[2][1]):
            return True
        if not chain(t):
            return False
        cands = [t]
        i = pidx(t)
        if i is not None:
            cands.append(i)  # parent[i] when the facts say parent[i] == i
        loads = set()
        for f in facts:
            for x in subterms(f[1]):
                if pidx(x) is not None:
                    loads.add(x)
        for r in cands:
            for ld in loads:
                if pidx(ld) == r and zones.entails(facts, "Eq", ld, r, If.tys) and (r == t or zones.entails(facts, "Eq", t, r, If.tys)):
                    return True
        return False

    nstore = 0
    for n, st in enumerate(If.all_end_states()):
        evs = st.event_list()
        facts = st.facts
        for e in evs:
            if e.kind != "store":
                continue
            if util.index_into_field(e.place, SZ) is not None:
                col.violation(rid, "%s|writes-size" % fk(find), find.loc(e.bb, e.idx), "find writes the size array")
                continue
            i = util.index_into_field(e.place, P)
            if i is None:
                continue
            nstore += 1
            okc = chain(i)
            okr = root(e.val, e.state[0] if e.state else facts) or root(e.val, facts)
            key = "%s|compression-store" % fk(find)
            if okc and okr:
                col.ok(rid, find.loc(e.bb, e.idx), key + "|%d" % n, "parent[%s] := %s: index on the path from v, value its root" % (tstr(i), tstr(e.val)))
            else:
                col.violation(rid, key, find.loc(e.bb, e.idx), "find stores parent[%s] := %s, but %s: path compression may only re-point vertices on the path from v at the root" % (tstr(i), tstr(e.val), "the index is not on the parent chain of v" if not okc else "the value is not known to be the root (no find result, no parent[r]==r fact)"))
    for n, st in enumerate(If.final_states):
        evs = st.event_list()
        ret = util.ret_term(st)
        rec = [e for e in evs if e.kind == "call" and (e.fn.get("resolved") or e.fn).get("def") == find.key]
        key = "%s|returns-root" % fk(find)
        if root(ret, st.facts):
            col.ok(rid, find.loc(), key + "|%d" % n, "returns %s, a root of v's chain on this path" % tstr(ret))
        else:
            col.violation(rid, key, find.loc(), "find returns %s, which is not known to be the root of v on this path (neither a find result nor a chain term r with parent[r]==r)" % tstr(ret), {"facts": [tstr(f[1]) for f in st.facts]})
        for e in rec:
            a = e.args[1]
            i = pidx(a)
            ok = i is not None and chain(i) and zones.entails(e.state[0], "Ne", a, i, If.tys)
            key = "%s|recursive-call" % fk(find)
            if ok:
                col.ok(rid, find.loc(e.bb), key + "|%d" % n, "recursion on parent[x] under parent[x] != x")
            else:
                col.violation(rid, key, find.loc(e.bb), "find recurses on %s without the path fact that it differs from its own argument (parent[x] != x): no progress towards the root" % tstr(a))


def _check_init(col, crate, rid, P, SZ):
    want = {P: "index", SZ: "one"}
    # new
    new = util.need_body(crate, "DSU::new")
    I = util.analyse(new)
    n = ("param", 1, I.names.get(1))
    for st in I.final_states:
        ret = util.ret_term(st)
        if not (ret[0] == "agg" and isinstance(ret[1], tuple) and ret[1][0] == "adt"):
            # delegating constructor: builds some value, calls reset(&mut it, n), returns it
            rs = [e for e in st.event_list() if e.kind == "call" and (e.fn.get("resolved") or e.fn).get("def") == util.need_body(crate, "DSU::reset").key]
            if rs and ret[0] == "out" and rs[-1].args[1] == n and rs[-1].args[0][0] == "ref" and rs[-1].args[0][1] == ("local", ret[2]) and ret[1] == rs[-1].extra.get("uid"):
                col.ok(rid, new.loc(), "%s|parent" % util.fkey(new), "new(n) returns the value initialised by reset(n)")
                col.ok(rid, new.loc(), "%s|size" % util.fkey(new), "new(n) returns the value initialised by reset(n)")
                continue
            col.violation(rid, "%s|unrecognised-construction" % util.fkey(new), new.loc(), "DSU::new does not build the struct from recognisable initialisers: %s" % tstr(ret))
            continue
        for f, role in want.items():
            v = ret[2][f]
            ok = _whole_init(v, n, role)
            nm = "parent" if f == P else "size"
            if ok:
                col.ok(rid, new.loc(), "%s|%s" % (util.fkey(new), nm), tstr(v))
            else:
                col.violation(rid, "%s|%s-init" % (util.fkey(new), nm), new.loc(), "DSU::new initialises the %s array with %s, expected %s for all i<n" % (nm, tstr(v), "parent[i]=i" if role == "index" else "size[i]=1"))
    reset = util.need_body(crate, "DSU::reset")
    # private helpers (possibly generic over an initialiser closure: refill(&mut v, n, |i| i)) are inlined
    hs_ = [m for m in crate.bodies if not m.is_closure and m.kind in ("Fn", "AssocFn") and m.vis != "pub" and not util.self_recursive(m)]
    I = util.analyser(hs_, features=("fncall", "comb"))(reset)
    n = ("param", 2, I.names.get(2))
    selfp_r = ("deref", ("param", 1, I.names.get(1)))
    done = {P: False, SZ: False}
    resized = {P: False, SZ: False}
    # loop-body stores are on the back-edge states; trace partitioning gives one state per path through
    # the body, so "every i<n is initialised" needs the store on EVERY back-edge state of one loop
    stray = {P: [], SZ: []}

    def conforming(ev, f):
        idx = util.index_into_field(ev.place, f)
        if idx is None:
            return None
        full = idx[0] == "elem" and idx[2] == mk_int(0) and idx[3] == n
        val_ok = (ev.val == idx) if want[f] == "index" else (ev.val == mk_int(1))
        return bool(full and val_ok)

    for st in I.all_end_states():
        cleared = set()
        for ev in st.event_list():
            if ev.kind == "call" and ev.extra.get("name") in ("resize", "clear", "fill", "extend"):
                a = ev.args[0]
                tgt = [x for x in subterms(a) if x[0] == "ref" and x[1][0] == "field" and x[1][2] in resized]
                if not tgt:
                    continue
                f = tgt[0][1][2]
                nmc = ev.extra.get("name")
                if nmc == "clear":
                    cleared.add(f)
                elif nmc == "extend" and f in cleared and want[f] == "index" and ev.args[1][0] == "agg" and isinstance(ev.args[1][1], tuple) and str(ev.args[1][1][1]).endswith("ops::Range") and ev.args[1][2] == (mk_int(0), n):
                    # clear(); extend(0..n)
                    resized[f] = True
                    done[f] = True
                elif nmc == "resize" and ev.args[1] == n:
                    resized[f] = True
                    # clear(); resize(n, 1) initialises every element
                    if f in cleared and want[f] == "one" and ev.args[2] == mk_int(1):
                        done[f] = True
                elif nmc == "fill" and want[f] == "one" and ev.args[1] == mk_int(1) and resized[f]:
                    done[f] = True
            if ev.kind == "store":
                for f in want:
                    c = conforming(ev, f)
                    if c is False:
                        stray[f].append(ev)
            if ev.kind == "store" and ev.place[0] == "field" and ev.place[2] in want:
                if _whole_init(ev.val, n, want[ev.place[2]]):
                    done[ev.place[2]] = True
                    resized[ev.place[2]] = True
    for head, sts in list(I.backedge_states.items()) + list(I.inl_back_groups):
        for f in want:
            if sts and all(any(ev.kind == "store" and conforming(ev, f) for ev in st.event_list()) for st in sts):
                done[f] = True
        # iterator forms over the whole array: for (i, x) in self.F.iter_mut().enumerate() { *x = i }
        # and for x in self.F.iter_mut() { *x = 1 }
        for f in want:
            okall = bool(sts)
            for st in sts:
                evs = st.event_list()
                li = max(k for k, e in enumerate(evs) if e.kind == "loop")
                src = [e for e in evs[:li] if e.kind == "call" and e.extra.get("name") == "iter_mut" and e.args and any(x == ("field", selfp_r, f) for x in subterms(e.args[0]))]
                enum_ = [e for e in evs[:li] if e.kind == "call" and e.extra.get("name") == "enumerate" and src and any(x == src[-1].res for x in [e.args[0]] + list(subterms(e.args[0])))]
                nx = [e for e in evs[li:] if e.kind == "call" and e.extra.get("name") == "next"]
                sts_ = [e for e in evs[li:] if e.kind == "store"]
                if not src or not nx or len(sts_) != 1:
                    okall = False
                    continue
                P_ = ("proj", 0, ("down", nx[-1].res, 1))
                if want[f] == "index":
                    okall = okall and bool(enum_) and sts_[0].place == ("deref", ("proj", 1, P_)) and sts_[0].val == ("proj", 0, P_)
                else:
                    okall = okall and sts_[0].val == mk_int(1) and ((not enum_ and sts_[0].place == ("deref", P_)) or (bool(enum_) and sts_[0].place == ("deref", ("proj", 1, P_))))
            if okall:
                done[f] = True
    # general iterator form: the loop draws items from a chain built of iter_mut / zip / enumerate over the arrays;
    # the item is a tree of positions and cells, every store of the body goes through a cell of the item
    def _args(t):
        return [y for y in t[2] if not (isinstance(y, tuple) and y and y[0] == "mem")]

    def item_tree(t):
        if isinstance(t, tuple) and t and t[0] == "ref":
            # `for x in &mut self.F`: the array itself as the iterable
            fs = sorted(set(x[2] for x in subterms(t) if x[0] == "field" and x[1] == selfp_r and x[2] in want))
            return ("cell", fs[0]) if len(fs) == 1 else None
        if not (isinstance(t, tuple) and t and t[0] == "call"):
            return None
        nm = str(t[1]).rsplit("::", 1)[-1]
        a = _args(t)
        if nm == "into_iter" and a:
            return item_tree(a[0])
        if nm == "enumerate" and a:
            sub = item_tree(a[0])
            return ("tuple", [("pos",), sub]) if sub else None
        if nm == "zip" and len(a) == 2:
            l, r = item_tree(a[0]), item_tree(a[1])
            return ("tuple", [l, r]) if l and r else None
        if nm == "iter_mut" and a:
            fs = [x[2] for x in [a[0]] + list(subterms(a[0])) if x[0] == "field" and x[1] == selfp_r and x[2] in want]
            return ("cell", fs[0]) if len(fs) == 1 else None
        return None

    owners, work = [], [I]
    while work:
        x_ = work.pop()
        owners.extend((x_, h_) for h_ in x_.loops)
        work.extend(getattr(x_, "inlined_subs", []))
    for L, head in owners:
        sts = L.backedge_states.get(head, [])
        ents = L.loop_entry.get(head, [])
        if not sts or len(ents) != 1:
            continue
        covered = {f: True for f in want}
        for st in sts:
            evs = st.event_list()
            li = max(k for k, e in enumerate(evs) if e.kind == "loop")
            nx = [e for e in evs[li:] if e.kind == "call" and e.extra.get("name") == "next" and e.args and e.args[0][0] == "ref" and e.args[0][1][0] == "local"]
            tree = item_tree(ents[0].get(nx[-1].args[0][1][1])) if nx else None
            if tree is None:
                covered = {f: False for f in want}
                break
            P_ = ("proj", 0, ("down", nx[-1].res, 1))

            def resolve(t):
                if t == P_:
                    return tree
                if isinstance(t, tuple) and t and t[0] == "proj":
                    sub = resolve(t[2])
                    if sub and sub[0] == "tuple" and isinstance(t[1], int) and t[1] < len(sub[1]):
                        return sub[1][t[1]]
                return None

            hit = set()
            for e in evs[li:]:
                if e.kind != "store":
                    continue
                cell = resolve(e.place[1]) if e.place[0] == "deref" else None
                if cell is None or cell[0] != "cell":
                    continue
                f = cell[1]
                good = (resolve(e.val) == ("pos",)) if want[f] == "index" else (e.val == mk_int(1))
                if good:
                    hit.add(f)
                else:
                    stray[f].append(e)
            for f in want:
                covered[f] = covered[f] and f in hit
        for f in want:
            if covered[f]:
                done[f] = True
    # internal iteration: self.F.iter_mut()[.enumerate()].for_each(|item| ..) - the closure body is the loop body, its
    # parameter the item
    fe_cover = {f: bool(I.final_states) for f in want}
    for st in I.final_states:
        hit = set()
        for e in st.event_list():
            if e.kind != "call" or e.extra.get("name") != "for_each" or len(e.args) < 2:
                continue
            tree = item_tree(e.args[0])
            clo = e.args[1]
            cb = crate.by_key.get(clo[1][1]) if clo[0] == "agg" and isinstance(clo[1], tuple) and clo[1][0] == "closure" else None
            if tree is None or cb is None:
                continue
            Ic = util.analyse(cb)
            item = ("param", 2, Ic.names.get(2))

            def resolve_c(t):
                if t == item:
                    return tree
                if isinstance(t, tuple) and t and t[0] == "proj":
                    sub = resolve_c(t[2])
                    if sub and sub[0] == "tuple" and isinstance(t[1], int) and t[1] < len(sub[1]):
                        return sub[1][t[1]]
                return None

            per_path = []
            for cst in Ic.final_states:
                h_ = set()
                for ce in cst.event_list():
                    if ce.kind != "store":
                        continue
                    cell = resolve_c(ce.place[1]) if ce.place[0] == "deref" else None
                    if cell is None or cell[0] != "cell":
                        continue
                    f = cell[1]
                    good = (resolve_c(ce.val) == ("pos",)) if want[f] == "index" else (ce.val == mk_int(1))
                    if good:
                        h_.add(f)
                    else:
                        stray[f].append(ce)
                per_path.append(h_)
            if per_path:
                hit |= set.intersection(*per_path)
        for f in want:
            fe_cover[f] = fe_cover[f] and f in hit
    for f in want:
        if fe_cover[f]:
            done[f] = True
    for f in want:
        if stray[f]:
            done[f] = False
    # ... on EVERY returning path: a path that leaves reset without the initialisation steps the others perform
    # (`if n == 1 { return; }`) keeps the previous forest
    def steps(st_):
        return [("loop",) if e.kind == "loop" else (e.extra.get("name"),) for e in st_.event_list() if e.kind == "loop" or (e.kind == "call" and e.extra.get("name") in ("resize", "clear", "fill", "extend", "for_each", "collect", "from_elem", "truncate", "resize_with"))]
    sigs = [steps(st_) for st_ in I.final_states]
    full = max(sigs, key=len) if sigs else []
    for st_, sg in zip(I.final_states, sigs):
        if len(sg) < len(full) and not zones.entails(st_.facts, "Eq", n, mk_int(0), I.tys):
            for f in want:
                done[f] = False
    for f in (P, SZ):
        nm = "parent" if f == P else "size"
        if done[f] and resized[f]:
            col.ok(rid, reset.loc(), "%s|%s" % (util.fkey(reset), nm), "resized to n and every i in 0..n initialised")
        else:
            col.violation(rid, "%s|%s-init" % (util.fkey(reset), nm), reset.loc(), "DSU::reset does not (resize to n and) initialise every %s[i], i<n, to %s" % (nm, "i" if f == P else "1"))


def _whole_init(v, n, role):
    if v[0] != "call":
        return False
    nm = v[1]
    args = v[2]
    if role == "index":
        if nm.endswith("::collect") or nm.endswith("Iterator::collect"):
            a = args[0]
            return a[0] == "agg" and isinstance(a[1], tuple) and a[1][1].endswith("ops::Range") and a[2] == (mk_int(0), n)
        return False
    if nm.endswith("from_elem"):
        return args[0] == mk_int(1) and args[1] == n
    return False
