#!/bin/bash
# Re-check every filed behaviour-preserving change (refactors/*) against the current rule packs, 6 at a time.
# The touched crates' tests were run when each change was filed; here only the checks are re-run (SKIP_TESTS).
cd /verif
ls refactors | xargs -P 6 -I{} sh -c 'SKIP_TESTS=1 tools/refac_check.sh {} /verif/refactors/{} 2>&1 | tail -1 | cut -c1-260'
