"""E1 — control-flow facts over a MIR body: successors (non-unwind), dominators, post-dominators,
natural loops, reachability.  Blocks are ints.  Cleanup blocks and unwind edges are ignored: the
rules speak about normal (non-panicking) executions, and a panic aborts the operation the property
is about."""


def successors(term):
    k = term["k"]
    if k == "goto":
        return [term["t"]]
    if k == "switch":
        r = list(term["targets"]) + [term["otherwise"]]
        out = []
        for x in r:
            if x not in out:
                out.append(x)
        return out
    if k in ("call",):
        return [term["target"]] if term["target"] is not None else []
    if k in ("assert", "drop"):
        return [term["target"]]
    if k == "asm":
        return list(term["targets"])
    return []


class CFG:
    def __init__(self, body):
        self.body = body
        n = len(body.blocks)
        self.n = n
        self.succ = [[] for _ in range(n)]
        self.pred = [[] for _ in range(n)]
        for i, b in enumerate(body.blocks):
            if b["cleanup"]:
                continue
            for s in successors(b["term"]):
                if body.blocks[s]["cleanup"]:
                    continue
                self.succ[i].append(s)
                self.pred[s].append(i)
        # reachable from entry
        self.reach = set()
        st = [0]
        while st:
            x = st.pop()
            if x in self.reach:
                continue
            self.reach.add(x)
            st.extend(self.succ[x])
        self.exits = [i for i in self.reach if body.blocks[i]["term"]["k"] == "return"]
        self._dom = None
        self._pdom = None
        self._loops = None
        self._rpo = None

    # ---- orders ------------------------------------------------------------------------------
    def rpo(self):
        if self._rpo is None:
            seen = set()
            order = []
            # iterative DFS post-order
            stack = [(0, iter(self.succ[0]))]
            seen.add(0)
            while stack:
                node, it = stack[-1]
                adv = False
                for s in it:
                    if s not in seen:
                        seen.add(s)
                        stack.append((s, iter(self.succ[s])))
                        adv = True
                        break
                if not adv:
                    order.append(node)
                    stack.pop()
            order.reverse()
            self._rpo = order
        return self._rpo

    # ---- dominators (iterative set algorithm; bodies are small) -------------------------------
    @staticmethod
    def _dominators(nodes, entry_set, preds):
        allset = set(nodes)
        dom = {}
        for x in nodes:
            dom[x] = {x} if x in entry_set else set(allset)
        changed = True
        while changed:
            changed = False
            for x in nodes:
                if x in entry_set:
                    continue
                ps = [p for p in preds(x) if p in dom]
                if ps:
                    new = set.intersection(*[dom[p] for p in ps])
                else:
                    new = set()
                new = new | {x}
                if new != dom[x]:
                    dom[x] = new
                    changed = True
        return dom

    def dom(self):
        if self._dom is None:
            nodes = [x for x in self.rpo()]
            self._dom = self._dominators(nodes, {0}, lambda x: self.pred[x])
        return self._dom

    def pdom(self):
        """post-dominators w.r.t. normal return exits (virtual exit joins all `return` blocks).
        Blocks that cannot reach a return (diverging) post-dominate nothing useful and get {self}."""
        if self._pdom is None:
            # nodes that can reach an exit
            can = set()
            st = list(self.exits)
            while st:
                x = st.pop()
                if x in can:
                    continue
                can.add(x)
                st.extend(p for p in self.pred[x] if p in self.reach)
            nodes = [x for x in reversed(self.rpo()) if x in can]
            EXIT = -1
            nodes2 = [EXIT] + nodes

            def preds(x):
                if x == EXIT:
                    return []
                r = [s for s in self.succ[x] if s in can]
                if x in self.exits:
                    r = r + [EXIT]
                return r

            d = self._dominators(nodes2, {EXIT}, preds)
            self._pdom = {x: d[x] - {EXIT} for x in nodes}
            for x in self.reach:
                self._pdom.setdefault(x, {x})
        return self._pdom

    def dominates(self, a, b):
        return a in self.dom().get(b, ())

    def postdominates(self, a, b):
        """a post-dominates b (every normal path from b to return passes a)"""
        return a in self.pdom().get(b, ())

    # ---- loops -------------------------------------------------------------------------------
    def back_edges(self):
        d = self.dom()
        r = []
        for x in self.reach:
            for s in self.succ[x]:
                if s in d.get(x, ()):
                    r.append((x, s))
        return r

    def loops(self):
        """head -> set of blocks of the natural loop(s) with that head"""
        if self._loops is None:
            loops = {}
            for (t, h) in self.back_edges():
                body = {h}
                st = [t]
                while st:
                    x = st.pop()
                    if x in body:
                        continue
                    body.add(x)
                    st.extend(self.pred[x])
                loops.setdefault(h, set()).update(body)
            self._loops = loops
        return self._loops

    def in_loop(self, bb):
        return any(bb in blks for blks in self.loops().values())

    # ---- reachability ------------------------------------------------------------------------
    def reachable_from(self, a, avoid=()):
        """blocks reachable from a (inclusive of successors only) without passing through `avoid`"""
        seen = set()
        st = list(self.succ[a])
        while st:
            x = st.pop()
            if x in seen or x in avoid:
                continue
            seen.add(x)
            st.extend(self.succ[x])
        return seen

    def all_paths_pass(self, src, dst_set, through):
        """True iff every path from src to any block in dst_set passes a block in `through`
        (src itself not counted)."""
        r = self.reachable_from(src, avoid=set(through))
        return not (r & set(dst_set))
