use std::io::Write;

use rlib_num_traits::FixedSizeInteger;

pub struct Writer<'a> {
    buf: [u8; Writer::BUF_SIZE],
    end: usize,
    stdout: Box<dyn Write + 'a>,
}

impl<'a> Writer<'a> {
    const BUF_SIZE: usize = 1 << 16;

    pub fn new(stdout: Box<dyn Write + 'a>) -> Self {
        Self {
            buf: [0; Writer::BUF_SIZE],
            end: 0,
            stdout,
        }
    }

    pub fn write<T: Writable>(&mut self, t: &T) {
        t.write(self);
        #[cfg(debug_assertions)]
        self.flush();
    }

    pub fn write_char(&mut self, c: char) {
        self.write_bytes(&[c as u8]);
        #[cfg(debug_assertions)]
        self.flush();
    }

    pub fn flush(&mut self) {
        if self.end == 0 {
            return;
        }

        self.stdout.write_all(&self.buf[..self.end]).unwrap();
        self.end = 0;
    }

    fn reserve(&mut self, size: usize) {
        if self.end + size > self.buf.len() {
            self.flush();
        }
    }

    fn write_bytes(&mut self, buf: &[u8]) {
        self.reserve(buf.len());
        self.buf[self.end..self.end + buf.len()].copy_from_slice(buf);
        self.end += buf.len();
    }
}

impl Drop for Writer<'_> {
    fn drop(&mut self) {
        self.flush();
    }
}

pub trait Writable {
    fn write(&self, writer: &mut Writer);
}

impl Writable for &str {
    fn write(&self, writer: &mut Writer) {
        for chunk in self.as_bytes().chunks(Writer::BUF_SIZE) {
            writer.write_bytes(chunk);
        }
    }
}

impl Writable for String {
    fn write(&self, writer: &mut Writer) {
        for chunk in self.as_bytes().chunks(Writer::BUF_SIZE) {
            writer.write_bytes(chunk);
        }
    }
}

impl<T: Writable> Writable for Vec<T> {
    fn write(&self, writer: &mut Writer) {
        for (i, value) in self.iter().enumerate() {
            if i != 0 {
                writer.write_char(' ');
            }
            writer.write(value);
        }
    }
}

macro_rules! write_unsigned {
    ($t:ty) => {
        impl Writable for $t {
            fn write(&self, writer: &mut Writer) {
                if self == &0 {
                    writer.write_char('0');
                    return;
                }

                let mut buf = [0; <$t as FixedSizeInteger>::BASE_10_LEN - 1];
                let mut index = buf.len();
                let mut value = *self;
                while value != 0 {
                    index -= 1;
                    buf[index] = (value % 10) as u8 + b'0';
                    value /= 10;
                }
                writer.write_bytes(&buf[index..]);
            }
        }
    };
}

macro_rules! write_signed {
    ($t:ty) => {
        impl Writable for $t {
            fn write(&self, writer: &mut Writer) {
                if self < &0 {
                    writer.write_char('-');
                }
                writer.write(&self.unsigned_abs());
            }
        }
    };
}

write_signed!(i8);
write_signed!(i16);
write_signed!(i32);
write_signed!(i64);
write_signed!(i128);
write_signed!(isize);

write_unsigned!(u8);
write_unsigned!(u16);
write_unsigned!(u32);
write_unsigned!(u64);
write_unsigned!(u128);
write_unsigned!(usize);

macro_rules! write_tuple {
    ($t1:ident, $($t:ident),*) => {
        impl<$t1: Writable, $($t: Writable,)*> Writable for ($t1, $($t,)*) {
            fn write(&self, writer: &mut Writer) {
                #[allow(non_snake_case)]
                let ($t1, $($t,)*) = self;
                writer.write($t1);
                $(
                    writer.write_char(' ');
                    writer.write($t);
                )*
            }
        }
    }
}

write_tuple!(A, B);
write_tuple!(A, B, C);
write_tuple!(A, B, C, D);
write_tuple!(A, B, C, D, E);
write_tuple!(A, B, C, D, E, F);
write_tuple!(A, B, C, D, E, F, G);
write_tuple!(A, B, C, D, E, F, G, H);
