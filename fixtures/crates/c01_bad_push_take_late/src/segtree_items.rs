//! Implementations of [SegtreeItem] for common operations.

use std::ops::{Add, AddAssign, Mul};

use crate::segtree::SegtreeItem;
use rlib_num_traits::{MinMax, ZeroOne};

/// Query min on a segment
#[derive(Clone, Debug)]
pub struct Min<T: PartialOrd + Clone> {
    pub v: T,
}

impl<T: PartialOrd + Clone> From<T> for Min<T> {
    fn from(v: T) -> Self {
        Self::new(v)
    }
}

impl<T: PartialOrd + Clone> Min<T> {
    pub fn new(v: T) -> Self {
        Self { v }
    }
}

impl<T: PartialOrd + Clone + MinMax> Default for Min<T> {
    fn default() -> Self {
        Self { v: T::MAX }
    }
}

impl<T: PartialOrd + Clone> SegtreeItem for Min<T> {
    fn merge(left: &Self, right: &Self) -> Self {
        if left.v < right.v {
            left.clone()
        } else {
            right.clone()
        }
    }
}

/// Query max on a segment
#[derive(Clone, Debug)]
pub struct Max<T: PartialOrd + Clone> {
    pub v: T,
}

impl<T: PartialOrd + Clone> From<T> for Max<T> {
    fn from(v: T) -> Self {
        Self::new(v)
    }
}

impl<T: PartialOrd + Clone> Max<T> {
    pub fn new(v: T) -> Self {
        Self { v }
    }
}

impl<T: PartialOrd + Clone + MinMax> Default for Max<T> {
    fn default() -> Self {
        Self { v: T::MIN }
    }
}

impl<T: PartialOrd + Clone> SegtreeItem for Max<T> {
    fn merge(left: &Self, right: &Self) -> Self {
        if left.v > right.v {
            left.clone()
        } else {
            right.clone()
        }
    }
}

/// Query sum on a segment
#[derive(Clone, Debug)]
pub struct Sum<T: Add<Output = T> + Clone> {
    pub v: T,
}

impl<T: Add<Output = T> + Clone> From<T> for Sum<T> {
    fn from(v: T) -> Self {
        Self::new(v)
    }
}

impl<T: Add<Output = T> + Clone> Sum<T> {
    pub fn new(v: T) -> Self {
        Self { v }
    }
}

impl<T: Add<Output = T> + Clone + Default> Default for Sum<T> {
    fn default() -> Self {
        Self::new(T::default())
    }
}

impl<T: Add<Output = T> + Clone> SegtreeItem for Sum<T> {
    fn merge(left: &Self, right: &Self) -> Self {
        Self {
            v: left.v.clone() + right.v.clone(),
        }
    }
}

/// Query min on a segment, += on a segment
#[derive(Clone, Debug)]
pub struct MinAdd<T: PartialOrd + AddAssign + Default + Clone> {
    pub v: T,
    pub md: T,
}

impl<T: PartialOrd + AddAssign + Default + Clone> From<T> for MinAdd<T> {
    fn from(v: T) -> Self {
        Self::new(v)
    }
}

impl<T: PartialOrd + AddAssign + Default + Clone> MinAdd<T> {
    pub fn new(v: T) -> Self {
        Self { v, md: T::default() }
    }
}

impl<T: PartialOrd + AddAssign + Default + Clone + MinMax> Default for MinAdd<T> {
    fn default() -> Self {
        Self {
            v: T::MAX,
            md: T::default(),
        }
    }
}

impl<T: PartialOrd + AddAssign + Default + Clone> SegtreeItem<T> for MinAdd<T> {
    fn merge(left: &Self, right: &Self) -> Self {
        Self::new(if left.v < right.v {
            left.v.clone()
        } else {
            right.v.clone()
        })
    }

    fn modify(&mut self, modifier: &T) {
        self.v += modifier.clone();
        self.md += modifier.clone();
    }

    fn push(&mut self, left: &mut Self, right: &mut Self) {
        let md = std::mem::take(&mut self.md);
        left.modify(&md);
        right.modify(&self.md);
    }
}

/// Query max on a segment, += on a segment
#[derive(Clone, Debug)]
pub struct MaxAdd<T: PartialOrd + AddAssign + Default + Clone> {
    pub v: T,
    pub md: T,
}

impl<T: PartialOrd + AddAssign + Default + Clone> From<T> for MaxAdd<T> {
    fn from(v: T) -> Self {
        Self::new(v)
    }
}

impl<T: PartialOrd + AddAssign + Default + Clone> MaxAdd<T> {
    pub fn new(v: T) -> Self {
        Self { v, md: T::default() }
    }
}

impl<T: PartialOrd + AddAssign + Default + Clone + MinMax> Default for MaxAdd<T> {
    fn default() -> Self {
        Self {
            v: T::MIN,
            md: T::default(),
        }
    }
}

impl<T: PartialOrd + AddAssign + Default + Clone> SegtreeItem<T> for MaxAdd<T> {
    fn merge(left: &Self, right: &Self) -> Self {
        Self::new(if left.v > right.v {
            left.v.clone()
        } else {
            right.v.clone()
        })
    }

    fn modify(&mut self, modifier: &T) {
        self.v += modifier.clone();
        self.md += modifier.clone();
    }

    fn push(&mut self, left: &mut Self, right: &mut Self) {
        let md = std::mem::take(&mut self.md);
        left.modify(&md);
        right.modify(&self.md);
    }
}

/// Query sum on a segment, += on a segment
#[derive(Clone, Debug)]
pub struct SumAdd<T: Add<Output = T> + Mul<Output = T> + Default + Clone> {
    pub v: T,
    pub len: T,
    pub md: T,
}

impl<T: Add<Output = T> + Mul<Output = T> + Default + Clone + ZeroOne> From<T> for SumAdd<T> {
    fn from(v: T) -> Self {
        Self::new(v)
    }
}

impl<T: Add<Output = T> + Mul<Output = T> + Default + Clone + ZeroOne> SumAdd<T> {
    pub fn new(v: T) -> Self {
        Self {
            v,
            len: T::ONE,
            md: T::default(),
        }
    }
}

impl<T: Add<Output = T> + Mul<Output = T> + Default + Clone> Default for SumAdd<T> {
    fn default() -> Self {
        Self {
            v: T::default(),
            len: T::default(),
            md: T::default(),
        }
    }
}

impl<T: Add<Output = T> + Mul<Output = T> + Default + Clone> SegtreeItem<T> for SumAdd<T> {
    fn merge(left: &Self, right: &Self) -> Self {
        Self {
            v: left.v.clone() + right.v.clone(),
            len: left.len.clone() + right.len.clone(),
            md: T::default(),
        }
    }

    fn modify(&mut self, modifier: &T) {
        self.v = self.v.clone() + modifier.clone() * self.len.clone();
        self.md = self.md.clone() + modifier.clone();
    }

    fn push(&mut self, left: &mut Self, right: &mut Self) {
        let md = std::mem::take(&mut self.md);
        left.modify(&md);
        right.modify(&self.md);
    }
}

/// Combinator for two items that implement [SegtreeItem].
#[derive(Clone, Debug, Default)]
pub struct Combinator<U, V>(pub U, pub V);

impl<T: Copy, U: From<T>, V: From<T>> From<T> for Combinator<U, V> {
    fn from(v: T) -> Self {
        Self(U::from(v), V::from(v))
    }
}

impl<M, U: SegtreeItem<M>, V: SegtreeItem<M>> SegtreeItem<M> for Combinator<U, V> {
    fn merge(left: &Self, right: &Self) -> Self {
        Self(U::merge(&left.0, &right.0), V::merge(&left.1, &right.1))
    }

    fn modify(&mut self, modifier: &M) {
        self.0.modify(modifier);
        self.1.modify(modifier);
    }

    fn push(&mut self, left: &mut Self, right: &mut Self) {
        self.0.push(&mut left.0, &mut right.0);
        self.1.push(&mut left.1, &mut right.1);
    }
}
