#!/usr/bin/env python3
"""Development aid: (re)generate control fixtures that are one-instance-broken (bad) or
equivalent-idiom (good) variants of a /repo crate.  Reads fixtures/specs.json:
  {"name": "c03_bad_split_no_push", "from": "treap", "edits": [["src/treap_node.rs", "old", "new", count?]]}
Copies /repo/rlib/<from> to fixtures/crates/<name>, renames the package, points path dependencies at the
frozen copies under fixtures/deps, applies the edits (each `old` must occur exactly `count` times, default 1).
Generated fixtures are committed; checks never regenerate them."""
import json, os, re, shutil, sys

VERIF = os.path.dirname(os.path.dirname(os.path.abspath(__file__)))
FX = os.path.join(VERIF, "fixtures")
REPO = "/repo"


def copy_dep(name):
    dst = os.path.join(FX, "deps", name)
    if os.path.exists(dst):
        return
    shutil.copytree(os.path.join(REPO, "rlib", name), dst, ignore=shutil.ignore_patterns("tests", "target"))
    fix_manifest(os.path.join(dst, "Cargo.toml"), None)


def fix_manifest(path, newname):
    s = open(path).read()
    if newname:
        s = re.sub(r'name\s*=\s*"[^"]+"', 'name = "%s"' % newname, s, count=1)
    # drop dev-dependencies, repoint path deps
    s = re.sub(r"\[dev-dependencies\][^\[]*", "", s)
    def rep(m):
        dep = m.group(2).rstrip("/").split("/")[-1]
        copy_dep(dep)
        return '%s{ path = "%s" }' % (m.group(1), os.path.join(FX, "deps", dep))
    s = re.sub(r'(\w+\s*=\s*)\{\s*"?path"?\s*=\s*"([^"]+)"\s*\}', rep, s)
    open(path, "w").write(s)


def main():
    specs = json.load(open(os.path.join(FX, "specs.json")))
    only = set(sys.argv[1:])
    for sp in specs:
        name = sp["name"]
        if only and name not in only:
            continue
        dst = os.path.join(FX, "crates", name)
        shutil.rmtree(dst, ignore_errors=True)
        shutil.copytree(os.path.join(REPO, "rlib", sp["from"]), dst, ignore=shutil.ignore_patterns("tests", "target"))
        fix_manifest(os.path.join(dst, "Cargo.toml"), name)
        for e in sp["edits"]:
            f, old, new = e[0], e[1], e[2]
            cnt = e[3] if len(e) > 3 else 1
            p = os.path.join(dst, f)
            s = open(p).read()
            if s.count(old) != cnt:
                sys.exit("fixture %s: %r occurs %d times in %s, expected %d" % (name, old, s.count(old), f, cnt))
            open(p, "w").write(s.replace(old, new))
        print("generated", name)


if __name__ == "__main__":
    main()
