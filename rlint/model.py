"""Program model over the JSON written by tools/mirdump (engine E0's Python side).

A Program is a set of crates for one build profile; a Body wraps one MIR body and offers
pretty-printing and convenience accessors.  Nothing here decides a property.
"""
import json
import os
import shutil
import subprocess
import tempfile
import time

VERIF = os.path.dirname(os.path.dirname(os.path.abspath(__file__)))
REPO = os.environ.get("VERIF_REPO", "/repo")


class ExportError(Exception):
    pass


def run_export(packages=None, release=False, repo=None, all_targets=False, workspace=False, extra=None):
    """Run mirdump over `repo` (default /repo) into a fresh directory and return (dir, log).

    A fresh CARGO_TARGET_DIR is used on every call (cargo's freshness cache would otherwise skip
    the wrapper); it is removed by tools/run_mirdump.sh.  The caller removes the output dir.
    """
    repo = repo or REPO
    out = tempfile.mkdtemp(prefix="vexport.")
    cmd = [os.path.join(VERIF, "tools", "run_mirdump.sh"), out]
    if release:
        cmd.append("--release")
    if workspace or not packages:
        cmd.append("--workspace")
    else:
        for p in packages:
            cmd += ["-p", p]
    if all_targets:
        cmd.append("--all-targets")
    if extra:
        cmd += extra
    env = dict(os.environ)
    env["REPO"] = repo
    env["CARGO_NET_OFFLINE"] = "true"
    p = subprocess.run(cmd, stdout=subprocess.PIPE, stderr=subprocess.STDOUT, text=True, env=env)
    if p.returncode != 0:
        shutil.rmtree(out, ignore_errors=True)
        raise ExportError("mirdump export failed (exit %d):\n%s" % (p.returncode, p.stdout[-4000:]))
    return out, p.stdout


def place_str(p):
    s = "_%d" % p["l"]
    for e in p["p"]:
        k = e[0]
        if k == "deref":
            s = "(*%s)" % s
        elif k == "field":
            s = "%s.%s" % (s, e[2] if e[2] is not None else e[1])
        elif k == "index":
            s = "%s[_%d]" % (s, e[1])
        elif k == "cidx":
            s = "%s[%s%d of %d]" % (s, "-" if e[3] else "", e[1], e[2])
        elif k == "subslice":
            s = "%s[%d..%s%d]" % (s, e[1], "-" if e[3] else "", e[2])
        elif k == "downcast":
            s = "(%s as %s)" % (s, e[2] if e[2] is not None else e[1])
        else:
            s = "%s<%s>" % (s, k)
    return s


def operand_str(o):
    k = o["k"]
    if k in ("copy", "move"):
        return "%s %s" % (k, place_str(o["place"]))
    if k == "const":
        if "fn" in o:
            return "fn " + o["fn"]["path"]
        if "val" in o:
            return "const %s_%s" % (o["val"], o["ty"])
        return "const %s" % o["text"]
    return str(o)


def rvalue_str(r):
    k = r["k"]
    if k == "use":
        return operand_str(r["op"])
    if k == "ref":
        return "&%s %s" % (r["bk"], place_str(r["place"]))
    if k == "rawptr":
        return "&raw %s %s" % (r["kind"], place_str(r["place"]))
    if k == "bin":
        return "%s(%s, %s)" % (r["op"], operand_str(r["a"]), operand_str(r["b"]))
    if k == "un":
        return "%s(%s)" % (r["op"], operand_str(r["a"]))
    if k == "cast":
        return "%s as %s [%s]" % (operand_str(r["op"]), r["ty"], r["ck"])
    if k == "agg":
        ak = r["ak"]
        nm = ak.get("path", ak.get("def", ak["k"]))
        if ak["k"] == "adt":
            nm = "%s::%s" % (nm, ak["variant_name"])
        return "%s{%s}" % (nm, ", ".join(operand_str(o) for o in r["ops"]))
    if k == "discr":
        return "discr(%s)" % place_str(r["place"])
    if k == "repeat":
        return "[%s; %s]" % (operand_str(r["op"]), r["n"])
    if k == "copy_for_deref":
        return "deref_copy %s" % place_str(r["place"])
    if k == "tlref":
        return "tlref %s" % r["def"]
    return r.get("text", str(r))


def callee_name(fn):
    """Short printable name of a call target."""
    if "indirect" in fn:
        return "<indirect %s>" % operand_str(fn["indirect"])
    return fn.get("path", "?")


class Body:
    def __init__(self, crate, j):
        self.crate = crate
        self.j = j
        self.key = j["key"]
        self.path = j["path"]
        self.name = j["name"]
        self.kind = j["kind"]
        self.blocks = j["blocks"]
        self.arg_count = j["arg_count"]
        self.locals = j["locals"]
        self.span = j["span"]
        self.file = j["span"]["file"]
        self.line = j["span"]["line"]
        self.is_closure = self.kind == "Closure"
        self.parent = j.get("parent")
        self.vis = j.get("vis")
        self.container = j.get("container")
        self.container_kind = j.get("container_kind")
        self._names = None

    # ---- names -------------------------------------------------------------------------------
    def local_names(self):
        """local index -> source name (only for debug-info entries that are plain locals)."""
        if self._names is None:
            n = {}
            for d in self.j["debug"]:
                v = d["value"]
                if "l" in v and not v["p"]:
                    n.setdefault(v["l"], d["name"])
            self._names = n
        return self._names

    def local_by_name(self, name):
        for l, n in self.local_names().items():
            if n == name:
                return l
        return None

    def upvar_names(self):
        """for closures: field index of the environment -> captured variable name"""
        r = {}
        for d in self.j["debug"]:
            v = d["value"]
            if "l" in v and v["l"] == 1 and v["p"]:
                for e in v["p"]:
                    if e[0] == "field":
                        r[e[1]] = d["name"]
                        break
        return r

    def upvar_types(self):
        """for closures: field index of the environment -> type of the capture"""
        r = {}
        for d in self.j["debug"]:
            v = d["value"]
            if "l" in v and v["l"] == 1 and v["p"]:
                for e in v["p"]:
                    if e[0] == "field":
                        r[e[1]] = e[3]
                        break
        return r

    def loc(self, bb=None, idx=None):
        """file:line of a statement/terminator (falls back to the function)"""
        try:
            if bb is not None:
                blk = self.blocks[bb]
                if idx is not None and idx < len(blk["stmts"]):
                    ln = blk["stmts"][idx].get("line")
                    if ln:
                        return "%s:%d" % (rel(self.file), ln)
                sp = blk["term"].get("span")
                if sp:
                    return "%s:%d" % (rel(sp["file"]), sp["line"])
        except Exception:
            pass
        return "%s:%d" % (rel(self.file), self.line)

    def term_line(self, bb):
        sp = self.blocks[bb]["term"].get("span")
        return sp["line"] if sp else None

    # ---- iteration ---------------------------------------------------------------------------
    def calls(self):
        """yield (bb, terminator) for every Call terminator in non-cleanup blocks"""
        for i, b in enumerate(self.blocks):
            if b["cleanup"]:
                continue
            t = b["term"]
            if t["k"] == "call":
                yield i, t

    def statements(self):
        for i, b in enumerate(self.blocks):
            if b["cleanup"]:
                continue
            for k, s in enumerate(b["stmts"]):
                yield i, k, s

    def dump(self):
        out = ["fn %s  [%s]  (%s:%d)" % (self.path, self.key, rel(self.file), self.line)]
        nm = self.local_names()
        for i, l in enumerate(self.locals):
            out.append("    let _%d: %s%s" % (i, l["ty"], "  // " + nm[i] if i in nm else ""))
        for i, b in enumerate(self.blocks):
            out.append("  bb%d%s:" % (i, " (cleanup)" if b["cleanup"] else ""))
            for s in b["stmts"]:
                if s["k"] == "assign":
                    out.append("      %s = %s" % (place_str(s["place"]), rvalue_str(s["rv"])))
                elif s["k"] == "set_discr":
                    out.append("      discr(%s) = %d" % (place_str(s["place"]), s["variant"]))
                else:
                    out.append("      %s" % s)
            t = b["term"]
            k = t["k"]
            if k == "call":
                out.append(
                    "      %s = %s(%s) -> %s"
                    % (
                        place_str(t["dest"]),
                        callee_name(t["fn"]) + ("<%s>" % ",".join(t["fn"].get("args", [])) if t["fn"].get("args") else ""),
                        ", ".join(operand_str(a) for a in t["args"]),
                        "bb%s" % t["target"] if t["target"] is not None else "!",
                    )
                )
            elif k == "switch":
                out.append(
                    "      switch %s [%s] otherwise bb%d"
                    % (
                        operand_str(t["op"]),
                        ", ".join("%s->bb%d" % (v, b2) for v, b2 in zip(t["vals"], t["targets"])),
                        t["otherwise"],
                    )
                )
            elif k == "assert":
                out.append(
                    "      assert(%s == %s, %s) -> bb%d"
                    % (operand_str(t["cond"]), t["expected"], t["msg"]["k"], t["target"])
                )
            elif k == "goto":
                out.append("      goto bb%d" % t["t"])
            elif k == "drop":
                out.append("      drop(%s) -> bb%d" % (place_str(t["place"]), t["target"]))
            elif k == "asm":
                out.append("      asm %s -> %s" % (t["template"], t["targets"]))
            else:
                out.append("      %s" % k)
        return "\n".join(out)


def rel(path):
    for pre in (REPO + "/", "/repo/"):
        if path.startswith(pre):
            return path[len(pre):]
    return path


class Crate:
    def __init__(self, j, fname):
        self.j = j
        self.name = j["crate"]
        self.fname = fname
        self.debug_assertions = j["debug_assertions"]
        self.bodies = [Body(self, b) for b in j["bodies"]]
        self.by_key = {b.key: b for b in self.bodies}
        self.adts = j["adts"]
        self.impls = j["impls"]
        self.statics = j["statics"]
        self.consts = j["consts"]
        self.aliases = j.get("aliases", [])
        self.traits = j["traits"]
        self.macros = j["macros"]

    def body(self, path_suffix):
        """unique body whose printed path equals or ends with `path_suffix`"""
        c = [b for b in self.bodies if b.path == path_suffix]
        if not c:
            # a function moved into a private module and re-exported keeps its last segments
            c = [b for b in self.bodies if b.path.endswith("::" + path_suffix)]
            pubs = [b for b in c if b.vis == "pub"]
            if len(c) > 1 and len(pubs) == 1:
                c = pubs
        if not c:
            c = [b for b in self.bodies if b.path.endswith(path_suffix)]
        if len(c) == 1:
            return c[0]
        if not c:
            # generic / lifetime parameter names are not part of a function's identity
            # (`impl<'a> Writer<'a>` vs `impl Writer<'_>`): compare with `::<...>` segments removed
            import re as _re

            def strip(p):
                prev = None
                while prev != p:
                    prev = p
                    p = _re.sub(r"::<[^<>]*>", "", p)
                return p

            want = strip(path_suffix)
            c = [b for b in self.bodies if not b.is_closure and (strip(b.path) == want or strip(b.path).endswith("::" + want))]
            if len(c) == 1:
                return c[0]
        if not c:
            # the NAMES of generic parameters are not part of an item's identity either where they sit inside a type
            # (`<Modular<M> as Add>::add` after `const M` was renamed to `MOD`): lists of plain identifiers that are not
            # primitive types are compared as placeholders, one per position
            import re as _re

            prim = {"u8", "u16", "u32", "u64", "u128", "usize", "i8", "i16", "i32", "i64", "i128", "isize", "f32", "f64", "bool", "char", "str", "f80"}

            def blank(p):
                def rep(m):
                    ids = [x.strip() for x in m.group(1).split(",")]
                    if any(x in prim for x in ids):
                        return m.group(0)
                    return "<%s>" % ",".join("_" for _x in ids)
                return _re.sub(r"<((?:'?[A-Za-z_][A-Za-z0-9_]*)(?:\s*,\s*'?[A-Za-z_][A-Za-z0-9_]*)*)>", rep, p)

            want = blank(path_suffix)
            if want != path_suffix or True:
                c = [b for b in self.bodies if not b.is_closure and (blank(b.path) == want or blank(b.path).endswith("::" + want))]
                if len(c) == 1:
                    return c[0]
                c = []
        if not c:
            # an item moved to another module of the crate (and re-exported at the old path) keeps its name, its self
            # type and its trait: compare with the module qualifiers (snake_case segments in front of a name) removed
            import re as _re

            def short(p):
                return _re.sub(r"(?<![\w>])(?:[a-z_][a-z0-9_]*::)+(?=[A-Za-z_<])", "", p)

            want = short(path_suffix)
            c = [b for b in self.bodies if not b.is_closure and short(b.path) == want]
            if len(c) == 1:
                return c[0]
        return None

    def bodies_matching(self, pred):
        return [b for b in self.bodies if pred(b)]

    def closures_of(self, body):
        return [b for b in self.bodies if b.is_closure and b.parent == body.key]

    def impl_of(self, body):
        if body.container is None:
            return None
        for i in self.impls:
            if i["key"] == body.container:
                return i
        return None

    def adt(self, name):
        for a in self.adts:
            if a["path"] == name or a["path"].endswith("::" + name):
                return a
        return None


def canon_path(p):
    """rustc prints an item of an impl block that sits in another module than its self type as
    `mods::<impl Type<..>>::name` / `mods::<impl Trait for Type>::name`; the same item next to the type prints as
    `Type::<..>::name` / `<Type as Trait>::name`.  One spelling for both, so that moving an impl block into a
    submodule does not change the name the rules know the function by."""
    k = p.find("<impl ")
    if k < 0 or (k > 0 and not p[:k].endswith("::")):
        return p
    depth = 0
    end = None
    for i in range(k, len(p)):
        if p[i] == "<":
            depth += 1
        elif p[i] == ">" and p[i - 1] != "-":
            depth -= 1
            if depth == 0:
                end = i
                break
    if end is None:
        return p
    inner = p[k + 6:end]
    rest = p[end + 1:]
    depth = 0
    split = None
    for i in range(len(inner)):
        if inner[i] == "<":
            depth += 1
        elif inner[i] == ">" and inner[i - 1] != "-":
            depth -= 1
        elif depth == 0 and inner.startswith(" for ", i):
            split = i
            break
    if split is not None:
        return "<%s as %s>%s" % (inner[split + 5:], inner[:split], canon_path(rest))
    ty = inner
    lt = ty.find("<")
    if lt > 0 and not ty[:lt].endswith("::"):
        ty = ty[:lt] + "::" + ty[lt:]
    return ty + canon_path(rest)


def _canon_paths(j):
    """apply canon_path to every printed path of an export (bodies, callees, impls), in place"""
    if isinstance(j, dict):
        for k, v in j.items():
            if k == "path" and isinstance(v, str) and "<impl " in v:
                # the standard library's own items keep rustc's spelling (the axiom tables name them that way)
                owner = str(j.get("def") or j.get("key") or "")
                if not owner.startswith(("std::", "core::", "alloc::")) and not v.startswith(("std::", "core::", "alloc::")):
                    j[k] = canon_path(v)
            elif isinstance(v, (dict, list)):
                _canon_paths(v)
    elif isinstance(j, list):
        for v in j:
            if isinstance(v, (dict, list)):
                _canon_paths(v)


class Program:
    """All crates of one export."""

    def __init__(self, directory, log=""):
        self.dir = directory
        self.log = log
        self.crates = {}
        t0 = time.time()
        for f in sorted(os.listdir(directory)):
            if not f.endswith(".json"):
                continue
            with open(os.path.join(directory, f)) as fh:
                j = json.load(fh)
            _canon_paths(j)
            # prefer the library target when a crate has several
            kind = f.split(".")[-2]
            name = j["crate"] if kind in ("rlib", "lib", "proc-macro") else "%s@%s" % (j["crate"], kind)
            self.crates[name] = Crate(j, f)
            self.crates[name].program = self
        self.load_s = time.time() - t0
        self.by_key = {}
        for c in self.crates.values():
            for b in c.bodies:
                self.by_key[b.key] = b

        self._resolve_single_impl_traits()

    def _resolve_single_impl_traits(self):
        """A call of a method of one of the workspace's own traits on a type parameter (`R::trade_places(..)` in a private
        `fn link<R: LinkRule>`) has no resolved callee.  When the calling function is not public - every instantiation is in
        the workspace - and the trait has exactly one impl in the workspace, the callee is that impl's method: the seam names
        what was there.  (A public generic function stays unresolved: its callers may bring their own impl.)"""
        impls = {}
        for c in self.crates.values():
            for i in c.impls:
                if i.get("trait"):
                    impls.setdefault((c.name, str(i.get("trait"))), []).append((c, i))
        for c in self.crates.values():
            own = {str(t.get("path")): t for t in getattr(c, "traits", []) or []}
            if not own:
                continue
            for b in c.bodies:
                root = b
                while root.is_closure and self.by_key.get(root.parent) is not None:
                    root = self.by_key[root.parent]
                if root.vis == "pub":
                    continue
                for _bb, t in b.calls():
                    fn = t["fn"]
                    tr = str(fn.get("trait") or "")
                    if fn.get("resolved") or tr not in own or "indirect" in fn:
                        continue
                    cands = impls.get((c.name, tr), [])
                    if len(cands) != 1:
                        continue
                    ic, imp = cands[0]
                    ms = [m for m in ic.bodies if not m.is_closure and m.container == imp.get("key") and m.name == fn.get("name")]
                    if len(ms) != 1:
                        continue
                    fn["resolved"] = {"def": ms[0].key, "path": ms[0].path, "krate": ic.name, "local": True, "kind": "item", "args": [], "is_closure": False, "by": "single-impl"}

    def crate(self, name):
        c = self.crates.get(name)
        if c is None:
            raise ExportError("crate %s missing from the export (have: %s)" % (name, ", ".join(sorted(self.crates))))
        return c

    def stats(self):
        nb = sum(len(c.bodies) for c in self.crates.values())
        nblk = sum(len(b.blocks) for c in self.crates.values() for b in c.bodies)
        return {"crates": len(self.crates), "bodies": nb, "blocks": nblk}

    def cleanup(self):
        shutil.rmtree(self.dir, ignore_errors=True)


def export_program(packages=None, release=False, repo=None, workspace=False, all_targets=False):
    d, log = run_export(packages=packages, release=release, repo=repo, workspace=workspace, all_targets=all_targets)
    return Program(d, log)
