mod print;
mod treap;
mod treap_node;

pub use print::TreePrinter;
pub use treap::Treap;
pub use treap_node::{TreapItem, TreapItemSized, TreapNode};
