"""C08 — Reader: the parsing code can only observe bytes of the stream in order, plus end-of-input at
an empty window.  Inductive window invariant + refill lemma + Interrupted retry + single delivery
point.  See DESIGN.md §4 C08."""
from .. import absint, util, zones
from ..absint import tstr, mk_int, subterms, Event
from ..core import Anchor

PID = "C08"
LEVEL = "other"
CRATES = ["rlib_io"]
RELEASE = True
RELEASE_ALWAYS = True
ARMED = True
ENGINES = ["E1", "E2", "E3", "E4a", "E5"]
TECHNIQUE = "inductive window invariant (begin <= end) and refill lemma (!eof => begin < end) proved per function by path-sensitive abstract interpretation with callee summaries and difference-bound entailment; every buffer read and every consume is an obligation begin < end; error-path rule for ErrorKind::Interrupted; who-may-use rules for the source and the cursors"
LEVEL_TEXT = (
    "Decides, on every path of every reading function in both build profiles, the structural content of 'a function of the input "
    "bytes alone': (1) no byte outside the current window [begin, end) is ever examined or consumed (obligations discharged from "
    "the inductive invariant begin <= end and the refill lemma, both proved on the code); (2) refill preserves unconsumed bytes, "
    "appends what the source delivered at buf[end..] and flags end of input only on a zero-length read into a non-empty slice; (3) "
    "the single call of the source retries ErrorKind::Interrupted; (4) nothing else talks to the source; cursors only move forward "
    "by one. The parsed values themselves (decimal accumulation) are not decided beyond the sign discipline."
)
LEVEL_NOTE = "trusted: rustc MIR, exporter, std axioms; Read contract (Ok(0) on a non-empty slice means end of input); token requests at end of input are outside the property's domain (the code's own debug_assert!s)"
EXPLANATION = (
    "W1 every read of buf[i] has i == begin and begin < end entailed at that point; W1b every `begin += 1` happens with begin < end "
    "entailed; INV begin <= end holds at every exit and back edge of every function given it at entry and after every callee "
    "(inductive); W2 refill: early return iff eof; compaction copy_within(begin..end, 0), end -= begin, begin = 0 iff begin != 0; "
    "the source reads into buf[end..]; end += bytes; eof set iff bytes == 0; LEM on return !eof => begin < end (proved from "
    "begin == end at entry); W2b every call of refill is under begin == end (so the slice handed to the source is never empty); W3 "
    "on the Err path of Read::read a panic is reachable only after a failed test for ErrorKind::Interrupted and the Interrupted "
    "path loops back to the read; W4 the source field is used only in refill and only via Read::read; W5 begin is only incremented "
    "by one or reset by refill, end only changes in refill; W6 the '-' branch accumulates result*10 - digit, the other + digit; W7 "
    "tuples/vec read components left to right, is_eof = skip whitespace then the flag. NOT decided: parsed values."
)
UNDECIDED = ["values parsed by the decimal accumulation loops (beyond sign discipline)", "UTF-8/ASCII handling of strings"]
ASSUMPTIONS = [
    "Read contract: Ok(0) for a non-empty slice means end of input; Ok(n) has n <= slice length",
    "token reads are not requested at end of input (domain of the property; marked by the code's debug_assert!)",
    "external Readable implementations only use the Reader's public API",
]
FIXTURES = [
    ("c08_bad_no_interrupted_retry", "bad", ["W3"]),
    ("c08_bad_peek_stale", "bad", ["W1"]),
    ("c08_bad_loop_no_refill", "bad", ["W1"]),
    ("c08_bad_refill_no_copy", "bad", ["W2"]),
    ("c08_bad_eof_short_read", "bad", ["W2"]),
    ("c08_bad_tuple_reversed", "bad", ["W7"]),
    ("c08_bad_readline_skip_after_cr", "bad", ["W1b"]),
    ("c08_good_match_interrupted", "good", []),
]


class R:
    pass


def roles(crate):
    r = R()
    adt = util.need_adt(crate, "Reader")
    fs = util.fields_of(adt)
    names = [f["name"] for f in fs]
    r.adt = adt

    def one(pred, what):
        c = [i for i, f in enumerate(fs) if pred(f["ty"])]
        if len(c) != 1:
            raise Anchor("Reader: expected exactly one %s field, found %d" % (what, len(c)))
        return c[0]

    r.BUF = one(lambda t: t.startswith("[u8;") or t.replace("alloc::", "std::") in ("std::boxed::Box<[u8]>", "std::vec::Vec<u8>"), "byte buffer ([u8; N], Box<[u8]> or Vec<u8>)")
    r.SRC = one(lambda t: "dyn std::io::Read" in t, "Box<dyn Read> source")
    r.EOF = one(lambda t: t == "bool", "bool end-of-input flag")
    us = [i for i, f in enumerate(fs) if f["ty"] == "usize"]
    if len(us) != 2:
        raise Anchor("Reader: expected two usize cursors")
    r.crate = crate
    # private roles by behaviour (the historical names are only a fast path): refill reads from the source, peek
    # returns one byte of the buffer, skip_whitespace is the loop over is_ascii_whitespace
    entries = [m_ for m_ in util.methods_of(crate, "Reader") if m_.vis == "pub"] + [b_ for b_ in crate.bodies if not b_.is_closure and b_.name == "read" and (crate.impl_of(b_) or {}).get("trait", "") and str((crate.impl_of(b_) or {}).get("trait")).endswith("Readable")]
    calls_named = lambda b_, nm_, tr_=None: any(t_["fn"].get("name") == nm_ and (tr_ is None or t_["fn"].get("trait") == tr_) for _bb, t_ in b_.calls())
    r.refill = util.resolve_role(crate, entries, "refill", lambda b_: not util.self_recursive(b_) and calls_named(b_, "read", "std::io::Read") and "Reader<" in str((crate.impl_of(b_) or {}).get("self_ty")), "the Reader method that reads from the source", named_ok=lambda _b: True)
    r.peek = util.resolve_role(crate, entries, "peek", lambda b_: not util.self_recursive(b_) and str(b_.locals[0]["ty"]) == "u8" and b_.arg_count == 1 and "Reader<" in str((crate.impl_of(b_) or {}).get("self_ty")) and b_.key != r.refill.key, "the Reader method that returns the byte under the cursor", named_ok=lambda _b: True)
    r.skip_ws = util.resolve_role(crate, entries, "skip_whitespace", lambda b_: not util.self_recursive(b_) and calls_named(b_, "is_ascii_whitespace") and str(b_.locals[0]["ty"]) == "()" and b_.arg_count == 1 and "Reader<" in str((crate.impl_of(b_) or {}).get("self_ty")), "the Reader method that skips ASCII whitespace", named_ok=lambda _b: True)
    # private helpers reachable from refill and called from nowhere else belong to refill (`read_retrying`)
    cand = util.private_helpers(crate, "Reader", exclude=[r.refill, r.peek, r.skip_ws])
    allowed = util.allowed_writers(crate, {r.refill.name}, cand)
    r.source_fns = [r.refill] + [h for h in cand if h.name in allowed]
    # end = the cursor that offsets the slice handed to the source
    r.END = None
    for sb in r.source_fns:
        I = absint.Interp(sb).run()
        for st in I.all_end_states() + I.diverged:
            for ev in st.event_list():
                if ev.kind == "call" and ev.extra.get("name") == "read" and ev.extra.get("trait") == "std::io::Read":
                    for s in subterms(ev.args[1]):
                        if s[0] == "load" and s[2][0] == "field" and s[2][2] in us:
                            r.END = s[2][2]
    if r.END is None:
        raise Anchor("cannot identify the `end` cursor: no Read::read(&mut buf[end..]) in refill")
    r.BEGIN = [u for u in us if u != r.END][0]
    # private non-recursive helpers of the Reader are judged in the context of their callers (inlined)
    r.helpers = [h for h in util.private_helpers(crate, "Reader", exclude=[r.refill, r.peek, r.skip_ws])]
    return r


def buf_field(pl, r):
    """pl is the reader's byte buffer, possibly behind the Box / Vec that owns it -> the field place"""
    for _ in range(6):
        if not isinstance(pl, tuple) or not pl:
            return None
        if pl[0] == "field" and pl[2] == r.BUF:
            return pl
        if pl[0] in ("deref", "boxptr"):
            pl = pl[1]
        elif pl[0] == "load":
            pl = pl[2]
        else:
            return None
    return None


def reader_place_of(arg):
    """place of the Reader object given the receiver argument of a method call"""
    if arg[0] == "ref":
        return arg[1]
    return ("deref", arg)


class Ctx:
    """per-body analysis with the invariant/lemma hooks"""

    def __init__(self, r):
        self.r = r
        self.summ = {r.refill.key: "lemma", r.skip_ws.key: "lemma"}
        self.cache = {}

    def inv(self, I, mem, rp):
        r = self.r
        b = I.load(mem, ("field", rp, r.BEGIN))
        e = I.load(mem, ("field", rp, r.END))
        I.tys[b] = "usize"
        I.tys[e] = "usize"
        return b, e

    def is_reader_ptr(self, I, a, ty=None):
        t = ty or I.tys.get(a) or ""
        return "Reader<" in t and t.startswith("&mut")

    def post_call(self, I, st, fn, args, bb, res, ev):
        if ev.extra.get("pure"):
            return
        # which argument is the reader?
        rp = None
        dj = ev.extra["dest"]
        for n, a in enumerate(args):
            if not isinstance(a, tuple) or not a:
                continue
            if a[0] == "ref" or a[0] in ("param", "load", "call", "phi"):
                # type of the MIR operand
                pass
        tys = ev.extra.get("argtys") or []
        for n, a in enumerate(args):
            ty = tys[n] if n < len(tys) else ""
            if ty.startswith("&mut") and "Reader<" in ty:
                rp = reader_place_of(a)
        if rp is None:
            # a closure that captured the reader by &mut is handed to the callee (iterator adaptors)
            root_rp = self.rp_of(I)
            for a in args:
                for s_ in subterms(a):
                    if s_[0] == "agg" and isinstance(s_[1], tuple) and s_[1] and s_[1][0] == "closure":
                        if any(x == ("ref", root_rp) for x in s_[2]):
                            rp = root_rp
        if rp is None:
            return
        b, e = self.inv(I, st.mem, rp)
        st.add_fact(("eq", ("bin", "Le", b, e), 1))
        tdef = (fn.get("resolved") or fn).get("def") if "indirect" not in fn else None
        if self.summ.get(tdef) == "lemma":
            eof = I.load(st.mem, ("field", rp, self.r.EOF))
            st.add_fact(("imp", ("eq", eof, 0), ("eq", ("bin", "Lt", b, e), 1)))

    def loop_head(self, I, st, head):
        rp = self.rp_of(I)
        if rp is None:
            return
        b, e = self.inv(I, st.mem, rp)
        st.add_fact(("eq", ("bin", "Le", b, e), 1))

    def rp_of(self, I):
        root = I
        while root.parent is not None:
            root = root.parent
        return getattr(root, "reader_place", None)

    def assume(self, I, st):
        rp = getattr(I, "reader_place", None)
        if rp is None:
            return
        b, e = self.inv(I, st.mem, rp)
        st.add_fact(("eq", ("bin", "Le", b, e), 1))
        if getattr(I, "pre_begin_eq_end", False):
            st.add_fact(("eq", ("bin", "Eq", b, e), 1))

    def analyse(self, body, pre_eq=False, inline_peek=True):
        k = (body.key, pre_eq)
        if k in self.cache:
            return self.cache[k]
        inline = {self.r.peek.key} if inline_peek and body.key != self.r.peek.key else set()
        inline |= {h.key for h in self.r.helpers if h.key != body.key}
        # closures handed to inlined helpers (fold_token(init, |acc, byte| ..)) and Option/bool combinators are followed
        I = absint.Interp(body, inline=inline, hooks={"post_call": self.post_call, "loop_head": self.loop_head}, assume=self.assume, features=("fncall", "comb"))
        I.record_index_reads = True
        # the reader parameter
        I.reader_place = None
        for i in range(1, body.arg_count + 1):
            ty = body.locals[i]["ty"]
            if ty.startswith("&mut") and "Reader<" in ty:
                I.reader_place = ("deref", ("param", i, I.names.get(i)))
        if body.is_closure:
            for k_, t_ in body.upvar_types().items():
                if (t_ or "").startswith("&mut") and "Reader<" in t_:
                    I.reader_place = ("deref", ("upvar", k_))
        I.pre_begin_eq_end = pre_eq
        I.run()
        self.cache[k] = I
        return I


def reading_bodies(crate, r):
    out = []
    hk = {h.key for h in r.helpers}
    for b in crate.bodies:
        if b.key in hk or (b.is_closure and b.parent in hk):
            continue  # inlined into every caller
        if b.is_closure:
            if any((t or "").startswith("&mut") and "Reader<" in t for t in b.upvar_types().values()):
                out.append(b)
            continue
        if any(b.locals[i]["ty"].startswith("&mut") and "Reader<" in b.locals[i]["ty"] for i in range(1, b.arg_count + 1)):
            out.append(b)
    return out


def check(col, prog, tier, profile, fixture=None):
    crate = prog.crate(fixture or "rlib_io")
    r = roles(crate)
    cx = Ctx(r)
    sfx = "" if profile == "dev" else "@" + profile
    fk = util.fkey
    dev = profile == "dev"
    col.rule("W1" + sfx, "every read of buf[i]: i == begin and begin < end entailed on that path", floor=30 if dev else 15)
    col.rule("W1b" + sfx, "every begin += 1 happens with begin < end entailed", floor=15)
    col.rule("INV" + sfx, "begin <= end re-established at every exit and loop back edge (inductive)", floor=25)
    col.rule("W2" + sfx, "refill: early return iff eof; compaction; read into buf[end..]; end += bytes; eof iff bytes == 0; lemma !eof => begin < end", floor=6)
    col.rule("W2b" + sfx, "every call of refill is under begin == end", floor=8)
    col.rule("W3" + sfx, "Err from Read::read: panic only after a failed Interrupted test; Interrupted loops back to the read", floor=2)
    col.rule("W4" + sfx, "the source is used only in refill and only via Read::read", floor=1)
    col.rule("W5" + sfx, "begin only +1 or reset by refill; end only changes in refill", floor=10)
    col.rule("W6" + sfx, "signed readers: '-' branch accumulates result*10 - digit, the other + digit", floor=12)
    col.rule("W7" + sfx, "composite readers read components left to right; is_eof = skip whitespace then the flag", floor=9)
    col.rule("W8" + sfx, "a token loop is left only at a whitespace byte or at end of input (an exhausted window is refilled, not taken for the end of the token)", floor=12)

    bodies = reading_bodies(crate, r)
    if len(bodies) < 20:
        raise Anchor("expected at least 20 functions taking &mut Reader, found %d" % len(bodies))

    for b in bodies:
        pre = b.key == r.refill.key
        I = cx.analyse(b, pre_eq=pre)
        rp = I.reader_place
        is_token_reader = _is_readable_impl(crate, b)
        ends = [("exit", s) for s in I.final_states] + [("backedge", s) for l in I.backedge_states.values() for s in l] + [("backedge", s) for s in I.inl_back]   # (loops of inlined private helpers too)
        # ---- INV at exits / back edges
        inv_ok = True
        for kind, st in ends:
            bb_, ee_ = cx.inv(I, st.mem, rp)
            z = zones.zone_of(st.facts, I.tys)
            if not z.entails("Le", bb_, ee_):
                if is_token_reader and _token_at_eof(I, st, r, rp, z):
                    continue
                inv_ok = False
                col.violation("INV" + sfx, "%s|%s" % (fk(b), kind), b.loc(), "%s can leave the window invariant begin <= end broken at a function %s: %s vs %s" % (b.path, kind, tstr(bb_), tstr(ee_)), {"path": st.path_list()})
                break
        if inv_ok:
            col.ok("INV" + sfx, b.loc(), fk(b), "%d exit/back-edge states entail begin <= end" % len(ends))
        # ---- W8: how a token loop may end (the loop may sit in an inlined private helper: fold_token(init, |acc, byte| ..))
        heads = set()
        work_ = [I]
        while work_:
            x_ = work_.pop()
            heads |= {x_.uid(h_) for h_ in x_.loop_entry}
            work_.extend(getattr(x_, "inlined_subs", []))
        if is_token_reader and heads:
            bad = None
            n_exit = 0
            for st in I.final_states:
                if not any(e.kind == "loop" for e in st.event_list()):
                    continue
                n_exit += 1
                if not _token_end_justified(st, heads, r):
                    bad = st
                    break
            if bad is not None:
                col.violation("W8" + sfx, "%s|token-end" % fk(b), b.loc(), "%s can finish a token on a path that saw neither a whitespace byte nor end of input after its loop (the window was merely exhausted): a token that straddles two deliveries of the source is cut in two" % b.path, {"facts": [(f[0], tstr(f[1])[:120], f[2]) for f in bad.facts if f[0] != "imp"][:30], "path": bad.path_list()})
            elif n_exit:
                col.ok("W8" + sfx, b.loc(), "%s|token-end" % fk(b), "%d exit path(s): whitespace seen or eof set" % n_exit)
        # ---- W1 / W1b / W2b / W5 from events
        seen = set()
        allst = I.final_states + I.diverged + [s for l in I.backedge_states.values() for s in l] + list(I.inl_back)
        for st in allst:
            for ev in st.event_list():
                if ev.kind == "idxread":
                    pl = ev.place
                    bf = buf_field(pl[1], r)
                    if bf is None:
                        continue
                    facts, mem, path = ev.state
                    rpl = bf[1]
                    bt, et = cx.inv(I, mem, rpl)
                    key = (ev.bb, "idx", facts)
                    if key in seen:
                        continue
                    seen.add(key)
                    z = zones.zone_of(facts, I.tys)
                    site = "%s|buf-read|bb%d" % (fk(b), ev.bb) if False else "%s|buf-read" % fk(b)
                    loc = _loc(I, b, ev)
                    if ev.val != bt:
                        col.violation("W1" + sfx, site + "|index", loc, "buffer read at index %s which is not the consume cursor `begin`" % tstr(ev.val))
                    elif z.entails("Lt", bt, et):
                        col.ok("W1" + sfx, loc, site, "begin < end entailed", nontrivial=True)
                    elif is_token_reader and _token_start(st, ev, r) and _token_at_eof_facts(I, facts, mem, r, rpl, z):
                        col.ok("W1" + sfx, loc, site + "|token-at-eof", "path requests a token at end of input (outside the domain)", nontrivial=False)
                    else:
                        col.violation("W1" + sfx, site, loc, "%s reads buf[begin] on a path where begin < end is not known: a byte outside the current window (a stale byte already consumed, or never delivered) can influence the result" % b.path, {"facts": [(f[0], tstr(f[1]), f[2]) for f in facts if f[0] != "imp"][:30], "path": _plist(path)})
                elif ev.kind == "store" and ev.place[0] == "field" and ev.place[2] in (r.BEGIN, r.END) and _is_reader_place(ev.place[1], I):
                    facts, mem, path = ev.state
                    rpl = ev.place[1]
                    key = (ev.bb, "st", ev.place[2], facts)
                    if key in seen:
                        continue
                    seen.add(key)
                    bt, et = cx.inv(I, mem, rpl)
                    loc = _loc(I, b, ev)
                    in_refill = b.key == r.refill.key or b.key in {x.key for x in r.source_fns}
                    if ev.place[2] == r.END:
                        if in_refill:
                            col.ok("W5" + sfx, loc, "%s|end-store" % fk(b), tstr(ev.val), nontrivial=False)
                        else:
                            col.violation("W5" + sfx, "%s|end-store" % fk(b), loc, "%s modifies the window end outside refill" % b.path)
                        continue
                    if in_refill:
                        if ev.val == mk_int(0):
                            col.ok("W5" + sfx, loc, "%s|begin-reset" % fk(b), "begin = 0 in refill", nontrivial=False)
                        else:
                            col.violation("W5" + sfx, "%s|begin-store" % fk(b), loc, "refill sets begin to %s" % tstr(ev.val))
                        continue
                    if not util.lin_equal(ev.val, ("bin", "Add", bt, mk_int(1))):
                        col.violation("W5" + sfx, "%s|begin-store" % fk(b), loc, "begin is set to %s; it may only be incremented by one (or reset by refill)" % tstr(ev.val))
                        continue
                    col.ok("W5" + sfx, loc, "%s|begin+1" % fk(b), "begin += 1", nontrivial=False)
                    z = zones.zone_of(facts, I.tys)
                    if z.entails("Lt", bt, et):
                        col.ok("W1b" + sfx, loc, "%s|consume" % fk(b), "begin < end entailed at the consume")
                    elif is_token_reader and _token_start(st, ev, r) and _token_at_eof_facts(I, facts, mem, r, rpl, z):
                        col.ok("W1b" + sfx, loc, "%s|consume|token-at-eof" % fk(b), "token requested at end of input (outside the domain)", nontrivial=False)
                    else:
                        col.violation("W1b" + sfx, "%s|consume" % fk(b), loc, "%s consumes a byte (begin += 1) on a path where begin < end is not known: a byte that was never delivered is skipped, so the result depends on how the stream was chunked" % b.path, {"facts": [(f[0], tstr(f[1]), f[2]) for f in facts if f[0] != "imp"][:30], "path": _plist(path)})
                elif ev.kind == "call" and (ev.fn.get("resolved") or ev.fn).get("def") == r.refill.key:
                    facts, mem, path = ev.state
                    key = (ev.bb, "rf", facts)
                    if key in seen:
                        continue
                    seen.add(key)
                    rpl = reader_place_of(ev.args[0])
                    bt, et = cx.inv(I, mem, rpl)
                    z = zones.zone_of(facts, I.tys)
                    loc = _loc(I, b, ev)
                    if z.entails("Eq", bt, et):
                        col.ok("W2b" + sfx, loc, "%s|refill-call" % fk(b), "begin == end entailed at the call")
                    else:
                        col.violation("W2b" + sfx, "%s|refill-call" % fk(b), loc, "%s calls refill without knowing begin == end: the slice handed to the source can be empty (a zero-length read is then mistaken for end of input) or unconsumed bytes are shifted" % b.path)

    _refill_rules(col, cx, r, sfx)
    _source_rules(col, crate, r, sfx)
    _sign_rules(col, cx, crate, r, sfx)
    _composite_rules(col, cx, crate, r, sfx)


def _plist(path):
    out = []
    while path is not None:
        out.append(path[1])
        path = path[0]
    out.reverse()
    return out


def _loc(I, b, ev):
    inn = ev.extra.get("in") if ev.extra else None
    if not inn:
        return b.loc(ev.bb)
    cb = b.crate.body(inn)
    return "%s (inlined into %s)" % (cb.loc(ev.bb), b.loc()) if cb is not None else b.loc()


def _is_reader_place(pl, I):
    return True


def _is_readable_impl(crate, b):
    imp = crate.impl_of(b)
    return imp is not None and (imp.get("trait") or "").endswith("Readable") and b.name == "read"


_WS = (9, 10, 11, 12, 13, 32)


def _token_end_justified(st, heads, r):
    """some fact established after the loop was entered says: end-of-input flag set, or the byte under the cursor is
    whitespace (is_ascii_whitespace true, or the byte equals one of the whitespace codes)"""
    def after_loop(t):
        # (memory versions are part of the terms: a load from mphi(head, ..) is a value read after the loop was entered)
        if not isinstance(t, tuple):
            return False
        if t and t[0] in ("mphi", "phi") and len(t) > 1 and t[1] in heads:
            return True
        return any(after_loop(x) for x in t)

    for f in st.facts:
        if f[0] not in ("eq", "ne"):
            continue
        t = f[1]
        if not isinstance(t, tuple) or not after_loop(t):
            continue
        truth = (f[0] == "eq") == bool(f[2]) if f[2] in (0, 1) else None
        if t[0] == "load" and t[2][0] == "field" and t[2][2] == r.EOF and truth is True:
            return True
        if t[0] == "call" and "whitespace" in str(t[1]) and truth is True:
            return True
        if f[0] == "eq" and f[2] in _WS and any(x[0] == "load" and x[2][0] == "index" for x in subterms(t) if isinstance(x, tuple) and len(x) > 2 and isinstance(x[2], tuple)) and t[0] == "load":
            return True
    return False


def _token_at_eof_facts(I, facts, mem, r, rp, z):
    """the path has the end-of-input flag set while a token reader still wants bytes: the caller asked
    for a token at end of input, which the property's domain excludes"""
    eof = I.load(mem, ("field", rp, r.EOF))
    if eof == mk_int(1):
        return True
    for f in facts:
        if f[0] in ("eq", "ne") and f[1] == eof:
            if (f[0] == "eq" and f[2] == 1) or (f[0] == "ne" and f[2] == 0):
                return True
    # eof set by an earlier memory version on this path (the flag never resets)
    for f in facts:
        t = f[1]
        if f[0] == "eq" and f[2] == 1 and isinstance(t, tuple) and t and t[0] == "load" and t[2] == ("field", rp, r.EOF):
            return True
        if f[0] == "ne" and f[2] == 0 and isinstance(t, tuple) and t and t[0] == "load" and t[2] == ("field", rp, r.EOF):
            return True
    return False


def _token_at_eof(I, st, r, rp, z):
    return _token_start(st, None, r, allow=1) and _token_at_eof_facts(I, st.facts, st.mem, r, rp, z)


def _token_start(st, ev, r, allow=0):
    """no byte of the token has been consumed yet on this path: since the whitespace skipper returned
    there is neither a loop nor an earlier consume (only then is 'eof is set' a token request at end of
    input, which the property's domain excludes; end of input reached in the middle of a token is lawful)"""
    evs = st.event_list()
    upto = evs.index(ev) if ev is not None and ev in evs else len(evs)
    seen_skip = False
    consumed = 0
    for e in evs[:upto]:
        if e.kind == "call" and (e.fn.get("resolved") or e.fn).get("def") == r.skip_ws.key:
            seen_skip = True
            consumed = 0
            continue
        if not seen_skip:
            continue
        if e.kind == "loop" and not (e.extra or {}).get("in"):
            return False
        if e.kind == "store" and e.place[0] == "field" and e.place[2] == r.BEGIN:
            consumed += 1
    # the consume being judged is the first one of the token at most
    return seen_skip and consumed <= allow


# ------------------------------------------------------------------------------------------------


def _refill_rules(col, cx, r, sfx):
    fk = util.fkey
    b = r.refill
    I = cx.analyse(b, pre_eq=True)
    rp = I.reader_place
    m0 = ("m0",)
    eof0 = ("load", m0, ("field", rp, r.EOF))
    beg0 = ("load", m0, ("field", rp, r.BEGIN))
    end0 = ("load", m0, ("field", rp, r.END))
    nread = 0
    for st in I.final_states:
        evs = st.event_list()
        reads = [e for e in evs if e.kind == "call" and e.extra.get("name") == "read" and e.extra.get("trait") == "std::io::Read"]
        stores = [e for e in evs if e.kind == "store"]
        early = ("eq", eof0, 1) in st.facts or ("ne", eof0, 0) in st.facts
        if early:
            ok = not reads and not stores
            if ok:
                col.ok("W2" + sfx, b.loc(), "%s|early-return" % fk(b), "eof already set: returns without touching anything")
            else:
                col.violation("W2" + sfx, "%s|early-return" % fk(b), b.loc(), "refill with eof already set must return without reading or writing")
            continue
        if not reads:
            col.violation("W2" + sfx, "%s|no-read" % fk(b), b.loc(), "refill returns without eof set and without reading from the source")
            continue
        if not (("eq", eof0, 0) in st.facts or ("ne", eof0, 1) in st.facts):
            col.violation("W2" + sfx, "%s|reads-after-eof" % fk(b), b.loc(), "refill reads from the source on a path that has not established eof == false: end of input is not latched, a source that delivers again after a zero-length read changes what was reported as the end")
            continue
        nread += 1
        rd = reads[-1]
        compact = ("eq", ("bin", "Ne", beg0, mk_int(0)), 1) in st.facts
        cw = [e for e in evs if e.kind == "call" and e.extra.get("name") == "copy_within"]
        pre_stores = [e for e in stores if evs.index(e) < evs.index(rd)]
        empty_window = any(f[0] == "eq" and isinstance(f[1], tuple) and f[1] and f[1][0] == "bin" and {f[1][2], f[1][3]} == {beg0, end0} and ((f[1][1] == "Eq" and f[2] == 1) or (f[1][1] == "Ne" and f[2] == 0)) for f in st.facts)
        reset_ok = False
        if not compact and empty_window and not cw and pre_stores and _copy_skipped_only_when_empty(cx, b, r):
            # an empty window is simply reset (begin = end = 0): nothing is kept, nothing needs moving
            vals = {e.place[2]: e.val for e in pre_stores if e.place[0] == "field"}
            if set(vals) <= {r.BEGIN, r.END} and all(v_ == mk_int(0) for v_ in vals.values()) and vals.get(r.BEGIN) == mk_int(0) and vals.get(r.END) == mk_int(0):
                col.ok("W2" + sfx, b.loc(rd.bb), "%s|compaction|empty" % fk(b), "empty window: begin = end = 0 before the read")
                reset_ok = True
        if reset_ok:
            pass
        elif compact:
            # an empty window (begin == end on this path) has nothing to move: the copy may be skipped
            empty_window = any(f[0] == "eq" and isinstance(f[1], tuple) and f[1] and f[1][0] == "bin" and {f[1][2], f[1][3]} == {beg0, end0} and ((f[1][1] == "Eq" and f[2] == 1) or (f[1][1] == "Ne" and f[2] == 0)) for f in st.facts)
            ok = len(cw) == 1 and cw[0].args[1][0] == "agg" and cw[0].args[1][2] == (beg0, end0) and cw[0].args[2] == mk_int(0) and evs.index(cw[0]) < evs.index(rd)
            ok = ok and cw[0].args[0][0] == "ref" and buf_field(cw[0].args[0][1], r) == ("field", rp, r.BUF)
            if not cw and empty_window and _copy_skipped_only_when_empty(cx, b, r):
                ok = True
                cw = [rd]
            vals = {e.place[2]: e.val for e in pre_stores if e.place[0] == "field"}
            ok = ok and (util.lin_equal(vals.get(r.END, mk_int(-1)), ("bin", "Sub", end0, beg0)) or (empty_window and vals.get(r.END) == mk_int(0))) and vals.get(r.BEGIN) == mk_int(0)
            if ok:
                col.ok("W2" + sfx, b.loc(cw[0].bb), "%s|compaction" % fk(b), "copy_within(begin..end, 0); end -= begin; begin = 0 before the read")
            else:
                col.violation("W2" + sfx, "%s|compaction" % fk(b), b.loc(), "refill with begin != 0 must move the unconsumed window to offset 0 (copy_within(begin..end, 0); end -= begin; begin = 0) before reading: unconsumed bytes are lost or the window is misplaced")
        else:
            if cw or pre_stores:
                # the move done unconditionally: copy_within(begin..end, 0); end -= begin; begin = 0 is the identity for begin == 0
                vals = {e.place[2]: e.val for e in pre_stores if e.place[0] == "field"}
                uncond = len(cw) == 1 and cw[0].args[1][0] == "agg" and cw[0].args[1][2] == (beg0, end0) and cw[0].args[2] == mk_int(0) and evs.index(cw[0]) < evs.index(rd) \
                    and cw[0].args[0][0] == "ref" and buf_field(cw[0].args[0][1], r) == ("field", rp, r.BUF) \
                    and set(vals) <= {r.BEGIN, r.END} and util.lin_equal(vals.get(r.END, mk_int(-1)), ("bin", "Sub", end0, beg0)) and vals.get(r.BEGIN) == mk_int(0)
                if uncond:
                    col.ok("W2" + sfx, b.loc(cw[0].bb), "%s|compaction" % fk(b), "copy_within(begin..end, 0); end -= begin; begin = 0 before the read, whatever begin is")
                    compact = True
                else:
                    col.violation("W2" + sfx, "%s|no-compaction-needed" % fk(b), b.loc(), "refill with begin == 0 must not move the window")
        # slice handed to the source: buf[end_now..]
        end_now = I.load(rd.state[1], ("field", rp, r.END))
        a1 = rd.args[1]
        ok = a1[0] == "ref" and a1[1][0] == "range" and buf_field(a1[1][1], r) == ("field", rp, r.BUF)
        if ok:
            rg = a1[1][2]
            ok = rg[0] == "agg" and rg[1][1].endswith("RangeFrom") and rg[2] == (end_now,)
        ok = ok and rd.args[0] == ("ref", ("field", rp, r.SRC))
        key = "%s|read-slice|%s" % (fk(b), "compact" if compact else "plain")
        if ok:
            col.ok("W2" + sfx, b.loc(rd.bb), key, "source.read(&mut buf[end..])")
        else:
            col.violation("W2" + sfx, "%s|read-slice" % fk(b), b.loc(rd.bb), "the source must read into buf[end..] (the free space after the unconsumed window); got %s" % tstr(a1))
        # bytes = Ok payload of the read; end += bytes; eof iff bytes == 0
        post = [e for e in stores if evs.index(e) > evs.index(rd)]
        endst = [e for e in post if e.place == ("field", rp, r.END)]
        eofst = [e for e in post if e.place == ("field", rp, r.EOF)]
        bytes_t = None
        if endst:
            d = zones.lin_sub(zones.linearize(endst[-1].val), zones.linearize(end_now))
            if len(d[0]) == 1 and d[1] == 0 and list(d[0].values()) == [1]:
                bytes_t = list(d[0])[0]
        zero = None
        zt = None
        for f in st.facts:
            t = f[1]
            if not isinstance(t, tuple):
                continue
            if f[0] == "eq" and t[0] == "bin" and t[1] in ("Eq", "Ne") and t[3] == mk_int(0) and any(s == rd.res for s in subterms(t[2])):
                zero, zt = (bool(f[2]) == (t[1] == "Eq")), t[2]
            elif f[0] in ("eq", "ne") and f[2] == 0 and t[0] in ("call", "proj", "cast") and any(s == rd.res for s in subterms(t)) and not (t[0] == "call" and str(t[1]).rsplit("::", 1)[-1] not in ("unwrap", "expect", "unwrap_or", "unwrap_or_default", "unwrap_unchecked", "branch")):
                zero, zt = (f[0] == "eq"), t
        if bytes_t is None and zero and not endst:
            bytes_t = zt  # `0 => eof = true` leaves end as it is: end += 0
        okb = bytes_t is not None and any(s == rd.res for s in subterms(bytes_t)) and (zt is None or zt == bytes_t)
        oke = zero is not None and ((zero and len(eofst) == 1 and eofst[0].val == mk_int(1)) or (not zero and not eofst))
        if zero is None and len(eofst) == 1 and bytes_t is not None and eofst[0].val in (("bin", "Eq", bytes_t, mk_int(0)), ("bin", "Eq", mk_int(0), bytes_t)):
            # eof = (bytes == 0): the flag is the test itself
            oke = True
            zero = "flag"
        key = "%s|advance|%s|%s" % (fk(b), "compact" if compact else "plain", "zero" if zero else "nonzero")
        if okb and oke:
            col.ok("W2" + sfx, b.loc(rd.bb), key, "end += bytes; eof %s" % ("set (bytes == 0)" if zero else "untouched (bytes != 0)"))
        else:
            col.violation("W2" + sfx, "%s|advance" % fk(b), b.loc(rd.bb), "after the read refill must do end += bytes and set eof exactly when bytes == 0 (got end := %s, eof stores: %d, zero-test: %s)" % (tstr(endst[-1].val) if endst else "nothing", len(eofst), zero))
        # LEM: !eof => begin < end on return (from begin == end at entry)
        bf, ef = cx.inv(I, st.mem, rp)
        eoff = I.load(st.mem, ("field", rp, r.EOF))
        if eoff == mk_int(1):
            col.ok("W2" + sfx, b.loc(), key + "|lemma-vacuous", "eof set on return", nontrivial=False)
        else:
            if bytes_t is not None:
                I.tys[bytes_t] = "usize"
            z = zones.zone_of(st.facts | {("eq", eoff, 0)}, I.tys)
            if z.entails("Lt", bf, ef):
                col.ok("W2" + sfx, b.loc(), key + "|lemma", "on return !eof => begin < end (from begin == end at entry)")
            else:
                col.violation("W2" + sfx, "%s|lemma" % fk(b), b.loc(), "refill can return with !eof and an empty window: callers would read a byte that was never delivered")
    if nread < 2:
        col.violation("W2" + sfx, "%s|paths" % fk(b), b.loc(), "expected refill paths with and without compaction, found %d reading paths" % nread)

    # ---- W3
    allst = I.final_states + I.diverged + [s for l in I.backedge_states.values() for s in l] + I.inl_back
    retry = False
    bad = None
    nerr = 0
    for st in allst:
        evs = st.event_list()
        reads = [e for e in evs if e.kind == "call" and e.extra.get("name") == "read" and e.extra.get("trait") == "std::io::Read"]
        if not reads:
            continue
        rd = reads[-1]
        d = ("discr", rd.res)
        is_err = ("eq", d, 1) in st.facts
        is_ok = ("eq", d, 0) in st.facts or ("ne", d, 1) in st.facts
        tested = None
        for f in st.facts:
            t = f[1]
            if f[0] in ("eq", "ne") and isinstance(t, tuple) and t and t[0] == "call" and "Interrupted" in repr(t) and any(s[0] == "call" and str(s[1]).endswith("Error::kind") for s in subterms(t)):
                tested = (f[0] == "eq") == bool(f[2])
                if str(t[1]).endswith("::ne"):
                    tested = not tested   # `kind != Interrupted` true means it is NOT the transient error
            # match on the kind's discriminant
            if f[0] in ("eq", "ne") and isinstance(t, tuple) and t and t[0] == "discr" and t in I.discr_names:
                nm = I.discr_names[t]
                inter = [v for v, n_ in nm.items() if n_ == "Interrupted"]
                if inter and f[2] == inter[0]:
                    tested = f[0] == "eq"
        is_back = any(st in l for l in I.backedge_states.values()) or st in I.inl_back
        unwraps = [e for e in evs if e.kind == "call" and e.extra.get("name") in ("unwrap", "expect") and evs.index(e) > evs.index(rd)]
        if is_back:
            if is_err and tested is True:
                retry = True
            continue
        if is_ok and not is_err:
            continue
        if is_err:
            nerr += 1
            if tested is False:
                continue  # a real error after a failed Interrupted test: panicking is the documented behaviour
            bad = (st, rd, "the Err path reaches the end of refill without testing for ErrorKind::Interrupted" if tested is None else "the Interrupted path does not loop back to the read")
        else:
            # discriminant never examined: the result is unwrapped blindly
            if unwraps:
                bad = (st, rd, "the result of Read::read is unwrapped without examining the error: ErrorKind::Interrupted panics instead of being retried")
    if bad is None and retry:
        col.ok("W3" + sfx, b.loc(), "%s|interrupted-retry" % fk(b), "Err(Interrupted) loops back to the read; other errors reach the panic only after the failed test")
        col.ok("W3" + sfx, b.loc(), "%s|error-paths" % fk(b), "%d non-Interrupted error path(s)" % nerr, nontrivial=False)
    else:
        st, rd, why = bad if bad else (None, None, "no path retries the read on ErrorKind::Interrupted")
        col.violation("W3" + sfx, "%s|interrupted-retry" % fk(b), b.loc(rd.bb) if rd else b.loc(), "transient ErrorKind::Interrupted from the source is not retried: %s" % why)


def _source_rules(col, crate, r, sfx):
    fk = util.fkey
    users = {}
    for b in crate.bodies:
        for bb, idx, s in b.statements():
            if s["k"] != "assign":
                continue
            rv = s["rv"]
            pls = []
            if rv["k"] in ("ref", "rawptr"):
                pls.append(rv["place"])
            for o in effects_operands(rv):
                if o.get("k") in ("copy", "move"):
                    pls.append(o["place"])
            pls.append(s["place"])
            for pl in pls:
                for e in pl["p"]:
                    if e[0] == "field" and e[1] == r.SRC and "dyn std::io::Read" in (e[3] or ""):
                        users.setdefault(b.key, b)
    src_keys = {x.key for x in r.source_fns}
    for k, b in users.items():
        if b.key in src_keys:
            # only Read::read may be called on it
            I = absint.Interp(b).run()
            names = set()
            for st in I.all_end_states() + I.diverged:
                for ev in st.event_list():
                    if ev.kind == "call" and ev.args and ev.args[0][0] == "ref" and ev.args[0][1][0] == "field" and ev.args[0][1][2] == r.SRC and ev.args[0][1][1] == ("deref", ("param", 1, I.names.get(1))):   # (the Reader's own field, not field 0 of some other value)
                        names.add((ev.extra.get("trait"), ev.extra.get("name")))
            if names == {("std::io::Read", "read")}:
                col.ok("W4" + sfx, b.loc(), "%s|source-use" % fk(b), "the source is used only through Read::read")
            else:
                col.violation("W4" + sfx, "%s|source-use" % fk(b), b.loc(), "the source is used through %s; only Read::read keeps every byte inside the window discipline" % sorted(names, key=str))
        else:
            col.violation("W4" + sfx, "%s|touches-source" % fk(b), b.loc(), "%s accesses the byte source directly; only refill may" % b.path)


def effects_operands(rv):
    for k in ("op", "a", "b"):
        if isinstance(rv.get(k), dict):
            yield rv[k]
    for o in rv.get("ops", []):
        yield o


def _copy_skipped_only_when_empty(cx, b, r):
    """Judged WITHOUT the call-site precondition begin == end (which makes every window empty and prunes the other
    branch): on every compacting path of refill the window is either moved by copy_within(begin..end, 0) or the code
    itself has tested begin == end; and the copy exists on some path."""
    I2 = cx.analyse(b, pre_eq=False)
    rp = I2.reader_place
    m0 = ("m0",)
    beg0 = ("load", m0, ("field", rp, r.BEGIN))
    end0 = ("load", m0, ("field", rp, r.END))
    seen_copy = False
    for st in I2.final_states:
        if ("eq", ("bin", "Ne", beg0, mk_int(0)), 1) not in st.facts:
            continue
        evs = st.event_list()
        cw = [e for e in evs if e.kind == "call" and e.extra.get("name") == "copy_within"]
        if cw:
            seen_copy = True
            continue
        empty = any(f[0] == "eq" and isinstance(f[1], tuple) and f[1] and f[1][0] == "bin" and {f[1][2], f[1][3]} == {beg0, end0} and ((f[1][1] == "Eq" and f[2] == 1) or (f[1][1] == "Ne" and f[2] == 0)) for f in st.facts)
        if not empty:
            return False
    return seen_copy


def _sign_rules(col, cx, crate, r, sfx):
    fk = util.fkey
    signed = ("i8", "i16", "i32", "i64", "i128", "isize")
    for b in crate.bodies:
        imp = crate.impl_of(b)
        if not (imp is not None and (imp.get("trait") or "").endswith("Readable") and b.name == "read" and imp["self_ty"] in signed):
            continue
        I = cx.analyse(b)
        found = {}
        # the accumulator is whichever loop-carried variable is updated as old*10 (+|-) digit, in the reader itself or in
        # an inlined helper's loop (the step may be a closure handed to a generic fold)
        for st in [s for l in I.backedge_states.values() for s in l] + list(I.inl_back):
            minus = None
            for f in st.facts:
                t = f[1]
                if f[0] == "eq" and isinstance(t, tuple) and t and t[0] == "bin" and t[1] == "Eq" and t[3] == mk_int(45):
                    minus = bool(f[2])
                # `match reader.peek() { b'-' => .., _ => .. }`: the switch is on the byte itself
                if f[0] in ("eq", "ne") and f[2] == 45 and not isinstance(f[2], bool) and isinstance(t, tuple) and t and t[0] != "bin":
                    minus = f[0] == "eq"
            for new in st.env.values():
                # new = old*10 (+|-) digit
                if not (isinstance(new, tuple) and new and new[0] == "bin" and new[1] in ("Add", "Sub")):
                    continue
                lhs = new[2]
                okm = isinstance(lhs, tuple) and lhs and lhs[0] == "bin" and lhs[1] == "Mul" and lhs[3] == mk_int(10) and lhs[2][0] == "phi"
                if minus is None or not okm:
                    continue
                found[(minus, new[1])] = st
        if not found:
            col.violation("W6" + sfx, "%s|anchor" % fk(b), b.loc(), "no decimal accumulator (x = x*10 +/- digit in a loop) found")
            continue
        okk = (True, "Sub") in found and (False, "Add") in found and (True, "Add") not in found and (False, "Sub") not in found
        if okk:
            col.ok("W6" + sfx, b.loc(), "%s|minus-branch" % fk(b), "'-' branch: result*10 - digit")
            col.ok("W6" + sfx, b.loc(), "%s|plus-branch" % fk(b), "other branch: result*10 + digit")
        else:
            col.violation("W6" + sfx, "%s|sign-discipline" % fk(b), b.loc(), "signed reader does not accumulate result*10 - digit after '-' and result*10 + digit otherwise (found %s)" % sorted((m, o) for (m, o) in found))


def _composite_rules(col, cx, crate, r, sfx):
    fk = util.fkey
    # tuples
    for b in crate.bodies:
        imp = crate.impl_of(b)
        if not (imp is not None and (imp.get("trait") or "").endswith("Readable") and b.name == "read" and imp["self_ty"].startswith("(")):
            continue
        I = cx.analyse(b)
        for st in I.final_states:
            calls = [e for e in st.event_list() if e.kind == "call" and e.extra.get("name") == "read" and (e.extra.get("trait") or "").endswith("Readable")]
            ret = util.ret_term(st)
            ok = ret[0] == "agg" and ret[1] == "tuple" and len(ret[2]) == len(calls) and all(ret[2][i] == calls[i].res for i in range(len(calls)))
            # component types in order
            want = [x.strip() for x in imp["self_ty"].strip("()").split(",") if x.strip()]
            got = [(e.fn.get("self_ty") or (e.fn.get("args") or ["?"])[0]) for e in calls]
            ok = ok and want == got
            key = "%s|arity%d" % (fk(b), len(want))
            if ok:
                col.ok("W7" + sfx, b.loc(), key, "components read left to right")
            else:
                col.violation("W7" + sfx, "%s|order" % fk(b), b.loc(), "tuple reader does not read its components left to right into the matching positions")
    # read_vec
    b = util.need_body(crate, "Reader::<'a>::read_vec")
    I = cx.analyse(b)
    okv = False
    for st in [s for l in I.backedge_states.values() for s in l] + list(I.inl_back):
        evs = [e for e in st.event_list() if e.kind == "call"]
        rd = [e for e in evs if e.extra.get("name") == "read"]
        ps = [e for e in evs if e.extra.get("name") == "push"]
        if rd and ps and evs.index(rd[-1]) < evs.index(ps[-1]) and ps[-1].args[1] == rd[-1].res:
            okv = True
    rng_ok = any(v[0] == "rangeiter" and v[1] == mk_int(0) and v[2] == ("param", 2, I.names.get(2)) for st in I.all_end_states() for v in st.env.values() if isinstance(v, tuple) and v)
    if not (okv and rng_ok):
        # iterator form: (0..n).map(|_| self.read()).collect()  (map is lazy and in order; collect drives it)
        n_ = ("param", 2, I.names.get(2))
        for st in I.final_states:
            ret = util.ret_term(st)
            if not (ret[0] == "call" and str(ret[1]).endswith("collect")):
                continue
            for s_ in subterms(ret):
                if s_[0] == "call" and str(s_[1]).endswith("Iterator::map") and len(s_[2]) >= 2:
                    rg, clo = s_[2][0], s_[2][1]
                    rg_ok = rg[0] == "agg" and isinstance(rg[1], tuple) and str(rg[1][1]).endswith("ops::Range") and rg[2] == (mk_int(0), n_)
                    cb = crate.by_key.get(clo[1][1]) if clo[0] == "agg" and isinstance(clo[1], tuple) and clo[1][0] == "closure" else None
                    if rg_ok and cb is not None:
                        Ic = cx.analyse(cb)
                        one = all(len([e for e in fs.event_list() if e.kind == "call" and e.extra.get("name") == "read"]) == 1 and util.ret_term(fs) == [e for e in fs.event_list() if e.kind == "call" and e.extra.get("name") == "read"][0].res for fs in Ic.final_states)
                        if one and Ic.final_states:
                            okv = rng_ok = True
    if not (okv and rng_ok):
        # extend form: v = Vec::new()/with_capacity(..); v.extend((0..n).map(|_| self.read())); v   -- and a path for
        # n == 0 that returns a fresh empty vector
        n_ = ("param", 2, I.names.get(2))

        def empty_vec(v):
            return isinstance(v, tuple) and v and v[0] == "call" and str(v[1]).rsplit("::", 1)[-1] in ("new", "with_capacity") and "Vec" in str(v[1])

        def one_read_map(mp):
            if not (isinstance(mp, tuple) and mp and mp[0] == "call" and str(mp[1]).endswith("Iterator::map") and len(mp[2]) >= 2):
                return False
            rg, clo = mp[2][0], mp[2][1]
            rg_ok_ = rg[0] == "agg" and isinstance(rg[1], tuple) and str(rg[1][1]).endswith("ops::Range") and rg[2] == (mk_int(0), n_)
            cb = crate.by_key.get(clo[1][1]) if clo[0] == "agg" and isinstance(clo[1], tuple) and clo[1][0] == "closure" else None
            if not rg_ok_ or cb is None:
                return False
            Ic = cx.analyse(cb)
            return bool(Ic.final_states) and all(len([e for e in fs.event_list() if e.kind == "call" and e.extra.get("name") == "read"]) == 1 and util.ret_term(fs) == [e for e in fs.event_list() if e.kind == "call" and e.extra.get("name") == "read"][0].res for fs in Ic.final_states)

        allp = bool(I.final_states) and not I.loops
        some = False
        for st in I.final_states:
            ret = util.ret_term(st)
            evs = [e for e in st.event_list() if e.kind == "call"]
            if empty_vec(ret) and not [e for e in evs if e.extra.get("name") == "read"] and zones.entails(st.facts, "Eq", n_, mk_int(0), I.tys):
                continue
            ex = [e for e in evs if e.extra.get("name") == "extend"]
            good = len(ex) == 1 and ret[0] == "out" and ret[1] == ex[0].extra.get("uid") and ex[0].args[0] == ("ref", ("local", ret[2])) and empty_vec((ex[0].extra.get("argvals") or [None])[0]) and one_read_map(ex[0].args[1]) and not [e for e in evs if e.extra.get("name") == "read"]
            allp = allp and good
            some = some or good
        if allp and some:
            okv = rng_ok = True
    # ... on every returning path: one that never walks 0..n (`if n == 1 { return Vec::new() }`) may only be n == 0
    n_all = ("param", 2, I.names.get(2))
    for st in I.final_states:
        evs_ = st.event_list()
        walked = any(e.kind == "loop" for e in evs_) or any(e.kind == "call" and e.extra.get("name") in ("collect", "extend", "from_iter") for e in evs_)
        if not walked and not zones.entails(st.facts, "Eq", n_all, mk_int(0), I.tys):
            okv = False
    if okv and rng_ok:
        col.ok("W7" + sfx, b.loc(), "%s|n-reads-in-order" % fk(b), "one read per element of 0..n, results collected in order")
    else:
        col.violation("W7" + sfx, "%s|n-reads-in-order" % fk(b), b.loc(), "read_vec must push the result of one read per iteration of 0..n")
    # is_eof
    b = util.need_body(crate, "Reader::<'a>::is_eof")
    I = cx.analyse(b)
    ok = True
    for st in I.final_states:
        evs = [e for e in st.event_list() if e.kind == "call"]
        sk = [e for e in evs if (e.fn.get("resolved") or e.fn).get("def") == r.skip_ws.key]
        ret = util.ret_term(st)
        ok = ok and len(sk) == 1 and ret[0] == "load" and ret[2] == ("field", I.reader_place, r.EOF) and ret == I.load(st.mem, ret[2])
    if ok:
        col.ok("W7" + sfx, b.loc(), "%s|skip-then-flag" % fk(b), "skip_whitespace(); eof")
    else:
        col.violation("W7" + sfx, "%s|skip-then-flag" % fk(b), b.loc(), "is_eof must skip whitespace and then return the end-of-input flag")
