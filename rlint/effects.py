"""E2 — effect summaries of exported bodies and canonical signatures of closures.

purity(body): True when the body (and everything it calls, recursively) neither writes memory
through a pointer, nor touches statics / thread-locals, nor contains inline asm, nor calls an
impure or unknown-impure function.  Used by absint to give two evaluations of the same pure
function on equal arguments (and equal visible memory) the same term.

canon(body): structural signature of a body with spans, line numbers and def keys of the body
itself removed, so that two textually identical closures get the same signature."""
import json

IMPURE_TRAITS = {
    "std::iter::Iterator",
    "std::iter::DoubleEndedIterator",
    "std::io::Read",
    "std::io::Write",
    "std::ops::FnMut",
    "std::ops::FnOnce",
    "std::fmt::Write",
    "std::ops::AddAssign",
    "std::ops::SubAssign",
    "std::ops::MulAssign",
    "std::ops::DivAssign",
    "std::ops::RemAssign",
    "std::ops::BitAndAssign",
    "std::ops::BitOrAssign",
    "std::ops::BitXorAssign",
    "std::ops::ShlAssign",
    "std::ops::ShrAssign",
    "std::ops::IndexMut",
    "std::ops::DerefMut",
    "std::ops::Drop",
}

PURE_STD_PREFIXES = (
    "std::option::Option::<T>::",
    "core::num::",
    "std::cmp::",
    "core::slice::<impl [T]>::len",
    "std::vec::Vec::<T, A>::len",
    "std::ops::Range",
    "core::f64::",
    "core::f32::",
    "std::f64::",
    "std::f32::",
    "std::convert::",
    "std::boxed::Box::<T>::new",
)
IMPURE_STD_NAMES = {"take", "insert", "get_or_insert", "get_or_insert_with", "replace", "as_mut", "push", "pop", "clear", "resize", "set", "swap"}

import re

_CLOSURE_TY = re.compile(r"\{closure@[^}]*\}")
_CLOSURE_ORD = re.compile(r"\{closure#\d+\}")
_purity = {}
_canon = {}


def _has_mut_ref_arg(fn_or_body_tys):
    return any(t.startswith("&mut") or t.startswith("*mut") for t in fn_or_body_tys)


def call_is_pure(fn, argtys, program, stack=()):
    """purity of one call given the callee descriptor and the argument types"""
    if "indirect" in fn:
        return False
    if _has_mut_ref_arg(argtys):
        return False
    res = fn.get("resolved")
    key = (res or fn).get("def")
    tgt = program.by_key.get(key) if program is not None else None
    if tgt is not None:
        return purity(tgt, program, stack)
    tr = fn.get("trait")
    nm = fn.get("name")
    if tr:
        if tr in IMPURE_TRAITS:
            return False
        # user-supplied trait method taking only shared references / values: a pure reader
        # (assumption: no interior mutability / IO in item implementations)
        return True
    p = (res or fn).get("path") or ""
    for pre in PURE_STD_PREFIXES:
        if p.startswith(pre) and nm not in IMPURE_STD_NAMES:
            return True
    return False


def purity(body, program, stack=()):
    k = body.key
    if k in _purity and _purity[k][0] is body:
        return _purity[k][1]
    if k in stack:
        return True  # optimistic on cycles (resolved by the outermost evaluation)
    stack = stack + (k,)
    pure = True
    for i in range(1, body.arg_count + 1):
        ty = body.locals[i]["ty"]
        if i == 1 and body.is_closure:
            # closure environment: a by-mutable-reference capture makes it impure
            if ty.startswith("&mut"):
                pure = False
            continue
        if ty.startswith("&mut") or ty.startswith("*mut"):
            pure = False
    if pure:
        for bb, blk in enumerate(body.blocks):
            if blk["cleanup"]:
                continue
            for s in blk["stmts"]:
                if s["k"] == "assign":
                    if any(e[0] == "deref" for e in s["place"]["p"]):
                        pure = False
                    rv = s["rv"]
                    if rv["k"] == "tlref":
                        pure = False
                    for o in _operands(rv):
                        if o.get("k") == "const" and "static" in o:
                            pure = False
                elif s["k"] == "set_discr":
                    if any(e[0] == "deref" for e in s["place"]["p"]):
                        pure = False
            t = blk["term"]
            if t["k"] == "asm":
                pure = False
            elif t["k"] == "call":
                argtys = [_op_ty(body, a) for a in t["args"]]
                if not call_is_pure(t["fn"], argtys, program, stack) and not _local_mutation_only(body, t):
                    pure = False
            if not pure:
                break
    _purity[k] = (body, pure)
    return pure


def _local_mutation_only(body, t):
    """`x op= y` / mem::swap on function-local variables: the &mut arguments are addresses of locals"""
    fn = t["fn"]
    if "indirect" in fn:
        return False
    tr = fn.get("trait") or ""
    p = (fn.get("resolved") or fn).get("path") or fn.get("path") or ""
    if not (tr.startswith("std::ops::") and tr.endswith("Assign")) and p not in ("std::mem::swap", "core::mem::swap"):
        return False
    for a in t["args"]:
        ty = _op_ty(body, a)
        if not (ty.startswith("&mut") or ty.startswith("*mut")):
            continue
        if a["k"] not in ("copy", "move") or a["place"]["p"]:
            return False
        if not _is_addr_of_local(body, a["place"]["l"], 0):
            return False
    return True


def _is_addr_of_local(body, l, depth):
    if depth > 4:
        return False
    defs = []
    for bb, idx, s in body.statements():
        if s["k"] == "assign" and s["place"]["l"] == l and not s["place"]["p"]:
            defs.append(s["rv"])
    if len(defs) != 1:
        return False
    rv = defs[0]
    if rv["k"] in ("ref", "rawptr"):
        pl = rv["place"]
        if not any(e[0] == "deref" for e in pl["p"]):
            return True
        if pl["p"] and pl["p"][0][0] == "deref" and len(pl["p"]) == 1:
            return _is_addr_of_local(body, pl["l"], depth + 1)
        return False
    if rv["k"] == "use" and rv["op"]["k"] in ("copy", "move") and not rv["op"]["place"]["p"]:
        return _is_addr_of_local(body, rv["op"]["place"]["l"], depth + 1)
    return False


def _operands(rv):
    for k in ("op", "a", "b"):
        if isinstance(rv.get(k), dict):
            yield rv[k]
    for o in rv.get("ops", []):
        yield o


def _op_ty(body, o):
    if o["k"] in ("copy", "move"):
        return o["place"].get("ty") or ""
    return o.get("ty", "")


def _strip(x, selfkey):
    if isinstance(x, dict):
        out = {}
        for k, v in x.items():
            if k in ("span", "fn_span", "line", "exp", "body_span", "text") and not (k == "text" and "val" not in x and "fn" not in x):
                continue
            out[k] = _strip(v, selfkey)
        return out
    if isinstance(x, list):
        return [_strip(v, selfkey) for v in x]
    if isinstance(x, str):
        if "{closure@" in x:
            x = _CLOSURE_TY.sub("{closure}", x)
        if selfkey and selfkey in x:
            x = x.replace(selfkey, "<self>")
        # sibling closures of the same parent differ only by their ordinal
        x = _CLOSURE_ORD.sub("{closure#_}", x)
    return x


def canon(body):
    k = body.key
    r = _canon.get(k)
    if r is not None and r[0] is body:
        return r[1]
    # closure type names embed source positions ("{closure@file:l:c}"): drop local types that mention them
    locs = [l["ty"] if "{closure@" not in l["ty"] else "{closure}" for l in body.locals]
    sig = json.dumps({"args": body.arg_count, "locals": locs, "blocks": _strip(body.blocks, body.key)}, sort_keys=True)
    import hashlib

    h = hashlib.sha1(sig.encode()).hexdigest()[:16]
    _canon[k] = (body, h)
    return h
