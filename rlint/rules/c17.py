"""C17 — data-race freedom of everything reachable from rlib_treap's public API (proof by effect
analysis: no unsafe code and no unsynchronised shared mutable state in the reachable set, so Rust's
data-race-freedom guarantee for safe code applies).  See DESIGN.md §4 C17."""
import os

from .. import util, witness
from ..core import Anchor

PID = "C17"
LEVEL = "proof"
CRATES = ["rlib_treap"]
RELEASE = True
RELEASE_ALWAYS = True
ARMED = True
ENGINES = ["E2", "E9"]
TECHNIQUE = "whole-program call-graph reachability from the treap crate's public API + effect rules (static mut / unsafe / asm / non-atomic RMW on shared atomics) + compile-pass Send/thread::scope witnesses"
LEVEL_TEXT = (
    "Proof of data-race freedom for the treap crate: the tool shows that no function reachable from its public API (across "
    "rlib_rand) contains unsafe code (other than std's thread_local! expansion), touches a `static mut`, or read-modify-writes "
    "a shared static non-atomically; safe Rust then guarantees absence of data races. Per-thread priority streams follow from "
    "the thread-local generator being advanced by get/next_raw/set (rule H4, shared with C16)."
)
LEVEL_NOTE = "trusted base: rustc's borrow/Send/Sync checking and unsafety checking, std (thread_local!, Cell), the exporter's call resolution; public fields written by code outside the workspace are outside the analysed program"
TRUSTED = ["rustc type/borrow/unsafety checking", "std::thread_local! and Cell", "tools/mirdump call resolution", "Rust's guarantee: safe code is data-race free"]
EXPLANATION = (
    "U1: every static referenced from the reachable set is thread_local or an immutable Sync static (no `static mut`), and no "
    "shared atomic static is updated by a separate load and store. U2: no unsafe block, unsafe fn or inline asm in the reachable "
    "set except code expanded from a std macro. U3: no allow(static_mut_refs)-style suppression on a reachable function. U4: "
    "compile-pass witnesses — Treap<T>: Send for a Send item and a thread::scope program building two treaps type-check against "
    "the current sources. U5/H4: the priority draw is get -> next_raw(&mut local) -> set(local) on a thread-local Cell, so each "
    "thread observes the seed-42 stream of its own generator. Every obligation is one (body, rule) pair; all must discharge."
)
UNDECIDED = []
ASSUMPTIONS = ["TreapItem implementations supplied by the user are safe code", "public fields of TreapNode are only written by safe code"]
FIXTURES = [
    ("c17_bad_static_mut", "bad", ["U1", "U2"]),
    ("c17_bad_tls_init_static_mut", "bad", ["U1", "U2"]),
    ("c17_bad_unsafe_sync_static", "bad", ["U1", "U2"]),
    ("c17_bad_atomic_rmw", "bad", ["U1b"]),
    ("c17_good_thread_local", "good", []),
    ("c17_bad_shared_mutex", "bad", ["U1b"]),   # a process-wide Mutex<Rng>: race-free, but one stream for all threads (what a thread draws depends on the others)
]

SYNC_WRAPPERS = ("std::sync::Mutex<", "std::sync::RwLock<", "std::sync::OnceLock<", "std::sync::LazyLock<", "std::sync::Once", "std::sync::atomic::Atomic")


def roots_of(crate):
    r = []
    for b in crate.bodies:
        if b.is_closure:
            continue
        if b.vis == "pub":
            r.append(b)
    return r


def check(col, prog, tier, profile, fixture=None):
    crate = prog.crate(fixture or "rlib_treap")
    roots = roots_of(crate)
    if not roots:
        raise Anchor("no public functions found in %s" % crate.name)
    if not fixture:
        for nm in ("TreapNode::<T>::new", "Treap::<T>::insert_at", "TreapNode::<T>::merge", "TreapNode::<T>::split_at"):
            util.need_body(crate, nm)
    reach, ext = util.reachable_calls(prog, roots)
    if fixture:
        # the control crates are exported together; the fan-out of unresolved trait calls must not pull
        # one control's bodies into another's reachable set
        others = {f[0] for f in FIXTURES} - {fixture}
        reach = {k: b for k, b in reach.items() if b.crate.name not in others}
    statics = {}
    for c in prog.crates.values():
        for s in c.statics:
            statics[s["key"]] = s
    col.rule("U1", "statics referenced from the reachable set are thread_local or immutable Sync (no static mut)", floor=1)
    col.rule("U1b", "no shared atomic static is both written and read from the reachable set (neither load+store nor a read-modify-write)", floor=0)
    col.rule("U2", "no unsafe block / unsafe fn / inline asm in the reachable set outside std macro expansions", floor=10 if not fixture else 0)
    col.rule("U3", "no allow(static_mut_refs) suppression on reachable functions", floor=10 if not fixture else 0)
    nstatic_refs = 0
    loads, stores = {}, {}   # shared atomic static -> [(body, bb)] over the whole reachable set
    refd_statics, late_atomic = set(), []   # statics the reachable set refers to; atomic accesses whose receiver is not a static by name
    for key, b in sorted(reach.items()):
        std_expanded = bool(b.span.get("exp")) and b.span.get("macro_crate") in ("std", "core")
        # ---- U2
        bad = []
        if b.j.get("unsafe"):
            bad.append("unsafe fn")
        for ub in b.j.get("unsafe_blocks", []):
            sp = ub["span"]
            if ub.get("source") == "CompilerGenerated":
                continue  # desugaring of format_args! etc., not written by anyone
            if sp.get("exp") and sp.get("macro_crate") in ("std", "core"):
                continue
            bad.append("unsafe block at line %d" % sp["line"])
        for i, blk in enumerate(b.blocks):
            if blk["term"]["k"] == "asm":
                bad.append("inline asm")
        if bad and not std_expanded:
            col.violation("U2", "%s|unsafe" % util.fkey(b), b.loc(), "%s is reachable from the treap public API and contains %s: the data-race-freedom guarantee of safe Rust no longer applies" % (b.path, ", ".join(bad)))
            col.obligation(False)
        else:
            col.ok("U2", b.loc(), util.fkey(b), "no unsafe code" if not std_expanded else "std macro expansion (trusted)", nontrivial=False)
            col.obligation(True)
        # ---- U3
        attrs = " ".join(b.j.get("attrs", []))
        if "static_mut_refs" in attrs:
            col.violation("U3", "%s|allow-static-mut-refs" % util.fkey(b), b.loc(), "%s silences the static_mut_refs lint" % b.path)
            col.obligation(False)
        else:
            col.ok("U3", b.loc(), util.fkey(b), None, nontrivial=False)
            col.obligation(True)
        # ---- U1: statics referenced
        for sk, where in _static_refs(b):
            nstatic_refs += 1
            refd_statics.add(sk)
            s = statics.get(sk)
            loc = b.loc(where)
            if s is None:
                # a static of a non-exported crate (std): immutable statics are Sync by construction
                col.ok("U1", loc, "%s|%s" % (util.fkey(b), sk), "external static", nontrivial=False)
                col.obligation(True)
                continue
            if s["mut"] and not s["thread_local"]:
                col.violation("U1", "%s|static-mut|%s" % (util.fkey(b), s["path"]), loc, "%s (reachable from the treap public API) accesses `static mut %s`: unsynchronised shared mutable state, two threads creating treap nodes race on it" % (b.path, s["path"]))
                col.obligation(False)
            elif not s["thread_local"] and s.get("freeze") is False and _sync_by_unsafe_impl(prog, s, {x.crate.name for x in reach.values()}):
                col.violation("U1", "%s|static-unsafe-sync|%s" % (util.fkey(b), s["path"]), loc, "%s (reachable from the treap public API) accesses the shared static %s whose type has interior mutability and is Sync only by an `unsafe impl Sync` written in the workspace: unsynchronised shared mutable state" % (b.path, s["path"]))
                col.obligation(False)
            else:
                col.ok("U1", loc, "%s|%s" % (util.fkey(b), s["path"]), "thread_local" if s["thread_local"] else "immutable Sync static of type %s (%s)" % (s["ty"], "no interior mutability" if s.get("freeze") else "interior mutability through std's synchronised types only"))
                col.obligation(True)
        # ---- U1b: accesses to shared atomics, by kind
        for bb, t in b.calls():
            fn = t["fn"]
            p = fn.get("path", "")
            nm = fn.get("name") or ""
            if p.startswith(("std::sync::atomic::Atomic", "core::sync::atomic::Atomic")) and (nm in ("load", "store", "swap") or nm.startswith(("fetch_", "compare_exchange"))):
                tgt = _arg_static(b, t)
                if tgt is None:
                    late_atomic.append((b, bb, t, nm))
                if tgt is not None:
                    if nm != "store":
                        loads.setdefault(tgt, []).append((b, bb, nm))
                    if nm != "load":
                        stores.setdefault(tgt, []).append((b, bb, nm))
    # a shared static behind a lock that the reachable set takes for writing (`static RNG: Mutex<Rng>`; `RNG.lock()`): every
    # access is synchronised - no data race - but the state is one for all threads, so what a thread draws and builds depends
    # on what the others did before and meanwhile
    # (an atomic reached through `&self` of a type a process-wide static holds is that static's)
    for b, bb, t, nm in late_atomic:
        tgt = _static_holding(prog, statics, refd_statics, b, t)
        if tgt is not None:
            if nm != "store":
                loads.setdefault(tgt, []).append((b, bb, nm))
            if nm != "load":
                stores.setdefault(tgt, []).append((b, bb, nm))
    for key, b in sorted(reach.items()):
        for bb, t in b.calls():
            fn = t["fn"]
            p_ = str(fn.get("path", ""))
            nm_ = fn.get("name") or ""
            if ("sync::Mutex" in p_ or "sync::RwLock" in p_ or "sync::poison::mutex::Mutex" in p_ or "sync::poison::rwlock::RwLock" in p_) and nm_ in ("lock", "try_lock", "write", "try_write", "get_mut"):
                tgt = _arg_static(b, t)
                if tgt is None:
                    tgt = _static_holding(prog, statics, refd_statics, b, t)
                s_ = statics.get(tgt) if tgt is not None else None
                if s_ is not None and not s_["thread_local"]:
                    col.violation("U1b", "%s|lock-shared|%s" % (util.fkey(b), s_["path"]), b.loc(bb), "%s takes the process-wide static %s (%s) for writing: the accesses are synchronised, but the state is shared by all threads - a thread's priority stream and the shapes of its treaps depend on the progress of other threads (not what the thread would see alone)" % (b.path, s_["path"], s_["ty"]))
                    col.obligation(False)
    # a shared atomic that the reachable set both writes and reads carries information from one thread to another: a separate
    # load and store loses or duplicates draws; even a single read-modify-write (a per-thread seed taken with fetch_add in
    # the thread-local initialiser) makes what a thread sees depend on how many threads came before it
    for sk in sorted(set(loads) & set(stores)):
        s = statics.get(sk, {"path": sk})
        sb, sbb, snm = stores[sk][0]
        lb, _lbb, lnm = loads[sk][0]
        rmw = all(n_ != "store" for _b, _bb, n_ in stores[sk]) and all(n_ != "load" for _b, _bb, n_ in loads[sk])
        col.violation("U1b", "%s|atomic-rmw|%s" % (util.fkey(sb), s["path"]), sb.loc(sbb), "%s writes the shared atomic static %s (%s) and %s reads it (%s): %s a thread's priority stream depends on the progress of other threads (no data race, but not what the thread would see alone)" % (sb.path, s["path"], snm, lb.path, lnm, "" if rmw else "the update is a separate load and store, so concurrent draws can be lost or duplicated, and"))
        col.obligation(False)
    # every static defined in the crates of the reachable set
    crates_reached = {b.crate.name for b in reach.values()}
    # ---- U2: hand-written `unsafe impl Send/Sync` in those crates (a promise the compiler does not check)
    for c in prog.crates.values():
        if c.name not in crates_reached:
            continue
        for i in c.impls:
            if i.get("unsafe") and not i.get("derived") and str(i.get("trait")) in ("std::marker::Sync", "std::marker::Send"):
                col.violation("U2", "unsafe-impl|%s|%s" % (i.get("trait"), _ty_name(i)), "%s:%d" % (i["span"]["file"], i["span"]["line"]), "`unsafe impl %s` for %s in a crate reachable from the treap public API: thread-safety is asserted by hand, the data-race-freedom guarantee of safe Rust no longer applies to values of that type" % (str(i.get("trait")).rsplit("::", 1)[-1], _ty_name(i)))
                col.obligation(False)
    for c in prog.crates.values():
        if c.name not in crates_reached:
            continue
        for s in c.statics:
            if s["mut"] and not s["thread_local"]:
                # defined but maybe unreferenced: referenced case is reported above with the site
                col.ok("U1", "%s:%d" % (s["span"]["file"], s["span"]["line"]), "static-mut-defined|%s" % s["path"], "a `static mut` exists in a reachable crate (reported at its use sites if reachable)", nontrivial=False)
            elif s["thread_local"]:
                col.ok("U1", "%s:%d" % (s["span"]["file"], s["span"]["line"]), "thread-local|%s" % s["path"], "thread-local static of type %s" % s["ty"])
                col.obligation(True)
    if not fixture:
        col.samples = [{"reachable_bodies": len(reach), "crates": sorted(crates_reached), "external_callees": sorted(k for k in ext if k)[:40]}]
        col.extra["reachable_bodies"] = sorted(b.path for b in reach.values())
        col.extra["external_callees"] = sorted(str(k) for k in ext)
        # ---- H4 (shared with C16): the draw advances persistent per-thread state
        from . import c16

        c16.rule_h4(col, prog, "U5")


def _ty_name(i):
    t = i.get("self_ty")
    return t if isinstance(t, str) else str((t or {}).get("s") or (t or {}).get("path") or t)


def _sync_by_unsafe_impl(prog, s, crates):
    """some crate of the program contains a hand-written `unsafe impl Sync`: a non-Freeze static can then
    be Sync without std's synchronisation (exact attribution to the static's type is not attempted; any
    such impl in the program is reported by U2 as well)"""
    for c in prog.crates.values():
        if c.name not in crates:
            continue
        for i in c.impls:
            if i.get("unsafe") and not i.get("derived") and str(i.get("trait")) == "std::marker::Sync":
                return True
    return False


def _static_refs(b):
    """(static key, bb) for every reference to a static in b"""
    out = []

    def walk_op(o, bb):
        if not isinstance(o, dict):
            return
        if o.get("k") == "const" and "static" in o:
            out.append((o["static"], bb))

    for bb, blk in enumerate(b.blocks):
        if blk["cleanup"]:
            continue
        for s in blk["stmts"]:
            if s["k"] != "assign":
                continue
            rv = s["rv"]
            if rv["k"] == "tlref":
                out.append((rv["def"], bb))
            for k in ("op", "a", "b"):
                walk_op(rv.get(k), bb)
            for o in rv.get("ops", []):
                walk_op(o, bb)
        t = blk["term"]
        for a in t.get("args", []):
            walk_op(a, bb)
        walk_op(t.get("op"), bb)
    return out


def _split_generics(ty):
    """head and top-level generic arguments of a type string"""
    k = ty.find("<")
    if k < 0 or not ty.endswith(">"):
        return ty, []
    parts, depth, cur = [], 0, ""
    for ch in ty[k + 1:-1]:
        if ch in "<([":
            depth += 1
        elif ch in ">)]":
            depth -= 1
        if ch == "," and depth == 0:
            parts.append(cur.strip())
            cur = ""
        else:
            cur += ch
    if cur.strip():
        parts.append(cur.strip())
    return ty[:k], parts


def _contained_types(prog, ty):
    """type strings stored inside a value of type `ty`: generic arguments (LazyLock<Mutex<T>>, [T; N], tuples) and the fields of
    the workspace's own structs, transitively"""
    seen, work = set(), [ty.strip()]
    while work:
        t = work.pop()
        if t in seen or not t:
            continue
        seen.add(t)
        if t.startswith("[") and t.endswith("]"):
            work.append(t[1:-1].rsplit(";", 1)[0].strip())
            continue
        if t.startswith("(") and t.endswith(")"):
            work.extend(_split_generics("X<" + t[1:-1] + ">")[1])
            continue
        head, args = _split_generics(t)
        work.extend(a for a in args if not a.startswith("'"))
        for c in prog.crates.values():
            for a in c.adts:
                ap = str(a.get("path") or "")
                if ap == head or ap.endswith("::" + head) or head.endswith("::" + ap):
                    for v in a.get("variants", []):
                        for f in v.get("fields", []):
                            work.append(str(f.get("ty")).strip())
    return seen


def _recv_type(b, t):
    """type behind the reference passed as the first argument of a call"""
    a = t["args"][0] if t["args"] else None
    if a is None or a.get("k") not in ("copy", "move") or a["place"].get("p"):
        return None
    ty = str(b.locals[a["place"]["l"]]["ty"])
    while ty.startswith("&"):
        ty = ty[1:].lstrip()
        if ty.startswith("'"):
            ty = ty.split(" ", 1)[1] if " " in ty else ty
        if ty.startswith("mut "):
            ty = ty[4:]
    return ty


def _static_holding(prog, statics, refd, b, t):
    """a process-wide static, referenced from the reachable set, whose value contains something of the type the call's
    receiver has (`static GEN: PriorityGen` with a `Mutex<Rng>` field, locked in `PriorityGen::draw(&self)`): the access is
    attributed to that static by type"""
    rt = _recv_type(b, t)
    if rt is None:
        return None
    for sk in sorted(refd):
        s_ = statics.get(sk)
        if s_ is None or s_["thread_local"] or s_.get("freeze") is not False:
            continue
        inner = _contained_types(prog, str(s_["ty"]))
        if rt in inner or any(x.endswith("::" + rt) or rt.endswith("::" + x) for x in inner if "<" not in x and "<" not in rt):
            return sk
    return None


def _arg_static(b, t):
    """static key behind the first argument of a call (through one local copy), if any"""
    a = t["args"][0] if t["args"] else None
    if a is None:
        return None
    if a.get("k") == "const" and "static" in a:
        return a["static"]
    if a.get("k") in ("copy", "move"):
        l = a["place"]["l"]
        # find the assignment of l
        for bb, idx, s in b.statements():
            if s["k"] == "assign" and s["place"]["l"] == l and not s["place"]["p"]:
                rv = s["rv"]
                if rv["k"] == "use" and rv["op"].get("k") == "const" and "static" in rv["op"]:
                    return rv["op"]["static"]
                if rv["k"] == "ref":
                    inner = rv["place"]["l"]
                    for bb2, idx2, s2 in b.statements():
                        if s2["k"] == "assign" and s2["place"]["l"] == inner and not s2["place"]["p"]:
                            rv2 = s2["rv"]
                            if rv2["k"] == "use" and rv2["op"].get("k") == "const" and "static" in rv2["op"]:
                                return rv2["op"]["static"]
    return None


WITNESS_SEND = """
use rlib_treap::{Treap, TreapItem, TreapItemSized};

#[derive(Default)]
pub struct Item { v: u64, size: usize }
impl TreapItem for Item {
    fn update(&mut self, l: Option<&Self>, r: Option<&Self>) {
        self.size = 1 + l.map_or(0, |x| x.size) + r.map_or(0, |x| x.size);
    }
}
impl TreapItemSized for Item { fn size(&self) -> usize { self.size } }

fn assert_send<T: Send>() {}

pub fn witness() -> (usize, usize) {
    assert_send::<Treap<Item>>();
    std::thread::scope(|s| {
        let a = s.spawn(|| { let mut t = Treap::new(); for i in 0..100 { t.insert_at(i, Item { v: i as u64, size: 1 }); } t.size() });
        let b = s.spawn(|| { let mut t = Treap::new(); for i in 0..100 { t.insert_at(0, Item { v: i as u64, size: 1 }); } t.size() });
        (a.join().unwrap(), b.join().unwrap())
    })
}
"""

WITNESS_NOT_SEND = """
use rlib_treap::{Treap, TreapItem};
pub struct Item(std::rc::Rc<u64>);
impl TreapItem for Item {}
fn assert_send<T: Send>() {}
pub fn witness() { assert_send::<Treap<Item>>(); }
"""


def extra(chk, tier):
    chk.rule("U4", "compile-pass witnesses: Treap<Item>: Send and a thread::scope program building two treaps; control: Treap<Rc item> is not Send", floor=2)
    ok, out = witness.check_crate("c17_send", WITNESS_SEND, deps={"rlib_treap": "rlib/treap"})
    if ok:
        chk.ok("U4", "witness:c17_send", "send+scope", "type-checks against the current sources")
        chk.obligation(True)
    else:
        chk.violation("U4", "witness|send+scope", "witness:c17_send", "the concurrent-construction witness no longer type-checks: %s" % out[-600:])
        chk.obligation(False)
    ok2, out2 = witness.check_crate("c17_not_send", WITNESS_NOT_SEND, deps={"rlib_treap": "rlib/treap"})
    if (not ok2) and "E0277" in out2:
        chk.ok("U4", "witness:c17_not_send", "control-fails-E0277", "control: Rc item is rejected with E0277")
    else:
        chk.fixture_result("witness:c17_not_send", "bad", ["E0277"], ["compiled" if ok2 else "other error"], False)
