use std::io::Read;

pub struct Reader<'a> {
    buf: [u8; Reader::BUF_SIZE],
    begin: usize,
    end: usize,
    stdin: Box<dyn Read + 'a>,
    eof: bool,
}

impl<'a> Reader<'a> {
    const BUF_SIZE: usize = 1 << 16;

    pub fn new(stdin: Box<dyn Read + 'a>) -> Self {
        Self {
            buf: [0; Reader::BUF_SIZE],
            begin: 0,
            end: 0,
            stdin,
            eof: false,
        }
    }

    pub fn read<T: Readable>(&mut self) -> T {
        T::read(self)
    }

    pub fn read_line(&mut self) -> Option<String> {
        let mut result = String::new();
        let mut read_something = false;
        while {
            if self.begin == self.end {
                self.refill();
            }
            !self.eof
        } {
            let c = self.peek() as char;
            result.push(c);
            self.begin += 1;
            read_something = true;
            if c == '\r' && self.peek() == b'\n' {
                result.pop().unwrap();
                self.begin += 1;
                break;
            } else if c == '\n' {
                result.pop().unwrap();
                break;
            }
        }
        if read_something {
            Some(result)
        } else {
            None
        }
    }

    pub fn read_lines(&mut self) -> Vec<String> {
        (0..).map_while(|_| self.read_line()).collect()
    }

    pub fn read_vec<T: Readable>(&mut self, n: usize) -> Vec<T> {
        let mut result = Vec::<T>::with_capacity(n);
        for _ in 0..n {
            result.push(self.read());
        }
        result
    }

    pub fn is_eof(&mut self) -> bool {
        self.skip_whitespace();
        self.eof
    }

    fn refill(&mut self) {
        if self.eof {
            return;
        }

        if self.begin != 0 {
            self.buf.copy_within(self.begin..self.end, 0);
            self.end -= self.begin;
            self.begin = 0;
        }

        let bytes = loop {
            match self.stdin.read(&mut self.buf[self.end..]) {
                Err(e) if e.kind() == std::io::ErrorKind::Interrupted => continue,
                res => break res.unwrap(),
            }
        };
        if bytes == 0 {
            self.eof = true;
        }
        self.end += bytes;
    }

    fn skip_whitespace(&mut self) {
        while {
            if self.begin == self.end {
                self.refill();
            }
            !self.eof && self.peek().is_ascii_whitespace()
        } {
            self.begin += 1;
            if self.begin == self.end {
                self.refill();
            }
        }
    }

    fn peek(&mut self) -> u8 {
        if self.begin == self.end {
            self.refill();
            if self.eof {
                return 0;
            }
        }
        self.buf[self.begin]
    }
}

pub trait Readable {
    fn read(reader: &mut Reader) -> Self;
}

impl Readable for String {
    fn read(reader: &mut Reader) -> Self {
        reader.skip_whitespace();
        let mut result = String::new();
        let mut read_something = false;
        while {
            if reader.begin == reader.end {
                reader.refill();
            }
            !reader.eof && !reader.peek().is_ascii_whitespace()
        } {
            result.push(reader.peek() as char);
            reader.begin += 1;
            read_something = true;
        }
        debug_assert!(read_something);
        result
    }
}

impl Readable for char {
    fn read(reader: &mut Reader) -> Self {
        reader.skip_whitespace();
        debug_assert!(!reader.eof);
        let result = reader.peek() as char;
        reader.begin += 1;
        result
    }
}

macro_rules! read_signed {
    ($t:ty) => {
        impl Readable for $t {
            fn read(reader: &mut Reader) -> Self {
                reader.skip_whitespace();
                let mut result: $t = 0;
                let mut read_something = false;
                if reader.peek() == b'-' {
                    reader.begin += 1;
                    while {
                        if reader.begin == reader.end {
                            reader.refill();
                        }
                        !reader.eof && !reader.peek().is_ascii_whitespace()
                    } {
                        debug_assert!(reader.buf[reader.begin].is_ascii_digit());
                        result = result * 10 - (reader.buf[reader.begin] - b'0') as $t;
                        reader.begin += 1;
                        read_something = true;
                    }
                } else {
                    while {
                        if reader.begin == reader.end {
                            reader.refill();
                        }
                        !reader.eof && !reader.peek().is_ascii_whitespace()
                    } {
                        debug_assert!(reader.buf[reader.begin].is_ascii_digit());
                        result = result * 10 + (reader.buf[reader.begin] - b'0') as $t;
                        reader.begin += 1;
                        read_something = true;
                    }
                }
                debug_assert!(read_something);
                result
            }
        }
    };
}

macro_rules! read_unsigned {
    ($t:ty) => {
        impl Readable for $t {
            fn read(reader: &mut Reader) -> Self {
                reader.skip_whitespace();
                let mut result: $t = 0;
                let mut read_something = false;
                while {
                    if reader.begin == reader.end {
                        reader.refill();
                    }
                    !reader.eof && !reader.peek().is_ascii_whitespace()
                } {
                    debug_assert!(reader.buf[reader.begin].is_ascii_digit());
                    result = result * 10 + (reader.buf[reader.begin] - b'0') as $t;
                    reader.begin += 1;
                    read_something = true;
                }
                debug_assert!(read_something);
                result
            }
        }
    };
}

read_signed!(i8);
read_signed!(i16);
read_signed!(i32);
read_signed!(i64);
read_signed!(i128);
read_signed!(isize);

read_unsigned!(u8);
read_unsigned!(u16);
read_unsigned!(u32);
read_unsigned!(u64);
read_unsigned!(u128);
read_unsigned!(usize);

macro_rules! read_tuple {
    ($($t:ident),*) => {
        impl<$($t: Readable,)*> Readable for ($($t,)*) {
            fn read(reader: &mut Reader) -> Self {
                ($($t::read(reader)),*)
            }
        }
    }
}

read_tuple!(A, B);
read_tuple!(A, B, C);
read_tuple!(A, B, C, D);
read_tuple!(A, B, C, D, E);
read_tuple!(A, B, C, D, E, F);
read_tuple!(A, B, C, D, E, F, G);
read_tuple!(A, B, C, D, E, F, G, H);
