#!/bin/bash
# usage: refac_check.sh <name> <src-dir with patch.diff notes.md>
# A behaviour-preserving change written independently (see DESIGN §10b): apply it to a scratch worktree
# (outside /repo and /verif), run the existing tests of the touched crates, then run every check whose
# crates the patch touches against the copy (VERIF_REPO) and expect silence.  Files the patch and the
# outcome under /verif/refactors/<name>/.
set -u
NAME=$1; SRC=$2
OUT=/verif/refactors/$NAME
W=$(mktemp -d /tmp/refac_check.XXXXXX)
mkdir -p $OUT
cp $SRC/patch.diff $OUT/patch.diff; cp $SRC/notes.md $OUT/notes.md 2>/dev/null
git -C /repo worktree add -q --detach $W/repo HEAD || exit 2
(cd $W/repo && git apply $OUT/patch.diff) || { echo "patch does not apply"; git -C /repo worktree remove --force $W/repo; rm -rf $W; exit 2; }
crates=$(grep '^+++ b/rlib/' $OUT/patch.diff | sed 's#+++ b/rlib/\([^/]*\)/.*#\1#' | sort -u)
T=0
# SKIP_TESTS=1: re-check of a filed change whose tests were already run (the patch is unchanged)
if [ -z "${SKIP_TESTS:-}" ]; then
for c in $crates; do (cd $W/repo && timeout 1800 cargo test --offline -q -p rlib_$c >$W/test.$c.log 2>&1) || T=1; done
fi
cd /verif
packs=$(python3 - $crates <<'PY'
import sys, importlib, glob, os
sys.path.insert(0, '/verif')
touched = set('rlib_' + c for c in sys.argv[1:])
out = []
for f in sorted(glob.glob('/verif/rlint/rules/c[0-9][0-9].py')):
    m = importlib.import_module('rlint.rules.' + os.path.basename(f)[:-3])
    if getattr(m, 'ARMED', False) and touched & set(m.CRATES):
        out.append(m.PID)
print(' '.join(out))
PY
)
: > $OUT/vcheck.log
for p in $packs; do ( VERIF_REPO=$W/repo VERIF_EVIDENCE_DIR=$W/ev bin/vcheck $p --tier quick --no-fixtures > $W/v.$p.log 2>&1; echo "exit=$? $p" >> $W/v.$p.log ) & done; wait
for p in $packs; do cat $W/v.$p.log >> $OUT/vcheck.log; done
python3 - "$NAME" "$T" "$packs" <<'PY'
import json, sys, re
name, t, packs = sys.argv[1:4]
out = '/verif/refactors/%s' % name
log = open(out + '/vcheck.log').read()
viol = sorted(set(re.findall(r"^VIOLATION property=(\w+)", log, re.M)))
broken = [l for l in log.splitlines() if re.match(r"exit=(?!0|1)", l)]
keys = re.findall(r"^\s+\S+: (\w[\w@]*): \[([^\]]+)\]", log, re.M)
meta = {"refactor": name, "existing_tests_pass": t == "0", "checks_run": packs.split(), "alarms": viol, "alarm_keys": ["%s" % k[1] for k in keys][:20], "broken": broken, "silent": not viol and not broken}
json.dump(meta, open(out + '/meta.json', 'w'), indent=1)
print(json.dumps(meta))
PY
git -C /repo worktree remove --force $W/repo; rm -rf $W; git -C /repo worktree prune
