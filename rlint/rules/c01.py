"""C01 — segment tree: push/merge discipline, geometry, routing, operand & build order, item and
combinator contracts, decided on all paths.  See DESIGN.md §4 C01.  (C02 reuses the helpers.)"""
from .. import absint, util, zones
from ..absint import tstr, mk_int, subterms
from ..core import Anchor

PID = "C01"
LEVEL = "other"
CRATES = ["rlib_segtree"]
RELEASE = True
NO_HIDDEN_STATE = ['rlib_segtree']   # driver rule STATE: these crates are plain data structures / functions
DEPENDS = ["C02"]   # the histories the property quantifies over include the boundary searches, which share the descent and the carry with the queries
ARMED = True
ENGINES = ["E1", "E3", "E4a"]
TECHNIQUE = "path-sensitive term-flow abstract interpretation of every descent/build function: event-order rules (push before descend, merge after write), linear-term equality of node/bounds arguments, inductive range-containment and partition obligations in the difference-bound domain, operand-order and field-flow rules for the built-in items and the pair combinator"
LEVEL_TEXT = (
    "Structural necessary conditions of 'ask == in-order fold' decided on every path of set/ask/modify/searches/build in both "
    "profiles: pending modifiers are pushed before any descent, aggregates re-merged after any write, node 2i+1/2i+2 always goes "
    "with (vl,m)/(m+1,vr) for the same midpoint everywhere, routed query ranges stay inside the node range and partition [l,r] in "
    "index order (inductive invariant proved by difference-bound entailment), merge operands are (left result, right result), "
    "the build consumes the iterator left to right, the six built-in items and the pair combinator satisfy their lazy-propagation "
    "contracts. The equality ask(l,r) == fold itself (over all item algebras and histories) is not decided."
)
LEVEL_NOTE = "trusted: rustc MIR, exporter, std axioms (Vec index, split_at_mut views, max/min, midpoint); assumes no usize overflow (checked in dev profile); user items assumed lawful"
EXPLANATION = (
    "R1 push-before-descend: on every path of the five descent functions every recursive call is preceded by push_at(own node). "
    "R2 re-merge-after-write: in set_internal/modify_internal merge_at(own node) follows the last recursive call; rebuild merges after "
    "both builds. R3 geometry: every recursive call passes (2i+1, vl, m) or (2i+2, m+1, vr) with m=(vl+vr)/2; push_at is "
    "push(data[i], data[2i+1], data[2i+2]); merge_at/rebuild_empty are update(data[i], data[2i+1], data[2i+2]). R4 routing: from "
    "vl<=l<=r<=vr at entry the arguments of every recursive call satisfy the same (entailed from the path's facts with midpoint/max/min "
    "axioms), and the query ranges passed on one path concatenate to [l,r] in index order. R5 ask merges (left result, right "
    "result). R6 rebuild builds left before right, leaves take iter.next(); constructors go new_raw -> build(0,0,n-1). R7 lazy items: "
    "push applies md to both children and then resets md; modify updates v and accumulates md; merge result has md=default; SumAdd "
    "uses v + m*len, len=left+right, new=>len ONE. R8 Combinator forwards every method component-wise, .0 with .0 and .1 with .1. "
    "NOT decided: the fold identity itself."
)
UNDECIDED = ["ask(l,r) == left-to-right fold as a value identity over all item algebras and histories"]
ASSUMPTIONS = ["no usize overflow in index arithmetic (checked in dev profile)", "user-supplied SegtreeItem implementations satisfy the monoid-action laws"]
FIXTURES = [
    ("c01_bad_modify_no_push", "bad", ["R1"]),
    ("c01_bad_modify_no_merge", "bad", ["R2"]),
    ("c01_bad_ask_wrong_child", "bad", ["R3"]),
    ("c01_bad_ask_split_wrong", "bad", ["R4"]),
    ("c01_bad_ask_merge_swapped", "bad", ["R5"]),
    ("c01_bad_rebuild_order", "bad", ["R6"]),
    ("c01_bad_minadd_no_reset", "bad", ["R7"]),
    ("c01_good_push_take", "good", []),
    ("c01_bad_push_take_late", "bad", ["R7"]),
    ("c01_bad_update_keeps_md", "bad", ["R7"]),
    ("c01_good_update_fieldwise", "good", []),
    ("c01_bad_combinator_push", "bad", ["R8"]),
    ("c01_good_shift_mid", "good", []),
]

DESCENTS = ["set_internal", "ask_internal", "modify_internal", "lower_bound_internal", "lower_bound_rev_internal"]
WRITERS = ["set_internal", "modify_internal"]
BUILDS = ["rebuild", "rebuild_empty"]


def is_call_to(ev, body):
    return ev.kind == "call" and (ev.fn.get("resolved") or ev.fn).get("def") == body.key


class Roles:
    pass


def seg_roles(crate):
    R = Roles()
    R.crate = crate
    R.fn = {}
    # the public API names are the anchors; private roles are recognised by what they do, under any name
    for nm in ["new", "from_slice", "from_iter", "set", "ask", "modify", "lower_bound", "lower_bound_rev"]:
        R.fn[nm] = util.need_body(crate, "Segtree::<T, M>::%s" % nm)

    def calls_item(b, what):
        # directly, or in a closure it hands to a shared accessor (`self.with_family(i, |node, l, r| node.push(l, r))`)
        return any(t["fn"].get("name") == what and (t["fn"].get("trait") or "").endswith("SegtreeItem") for x in [b] + list(crate.closures_of(b)) for bb, t in x.calls())

    anyb = lambda b: True
    rec = lambda b: util.self_recursive(b)
    for role, entry in (("set_internal", "set"), ("ask_internal", "ask"), ("modify_internal", "modify"), ("lower_bound_internal", "lower_bound"), ("lower_bound_rev_internal", "lower_bound_rev")):
        R.fn[role] = util.resolve_role(crate, R.fn[entry], role, rec, "the recursive worker of Segtree::%s" % entry, named_ok=anyb)
    R.fn["rebuild"] = util.resolve_role(crate, [R.fn["from_slice"], R.fn["from_iter"]], "rebuild", rec, "the recursive builder behind from_slice/from_iter", named_ok=anyb)
    R.fn["rebuild_empty"] = util.resolve_role(crate, R.fn["new"], "rebuild_empty", rec, "the recursive builder behind new", named_ok=anyb)
    descents = [R.fn[x] for x in DESCENTS]
    R.fn["push_at"] = util.resolve_role(crate, [R.fn["modify"], R.fn["ask"]], "push_at", lambda b: not util.self_recursive(b) and calls_item(b, "push"), "the helper that calls SegtreeItem::push on a node")
    R.fn["merge_at"] = util.resolve_role(crate, [R.fn["modify"], R.fn["set"]], "merge_at", lambda b: not util.self_recursive(b) and calls_item(b, "update") and not calls_item(b, "push"), "the helper that calls SegtreeItem::update on a node")
    seg_adt = util.need_adt(crate, "Segtree")
    builds_tree = lambda b: not util.self_recursive(b) and any(s_["k"] == "assign" and s_["rv"]["k"] == "agg" and s_["rv"]["ak"]["k"] == "adt" and s_["rv"]["ak"]["def"] == seg_adt["key"] for _bb, _i, s_ in b.statements())
    R.fn["new_raw"] = util.resolve_role(crate, [R.fn["new"], R.fn["from_slice"]], "new_raw", builds_tree, "the constructor that allocates the tree")
    _DESCENT_KEYS.clear()
    _DESCENT_KEYS.update(x.key for x in descents)
    R.role_of = {b_.key: nm_ for nm_, b_ in R.fn.items()}
    adt = util.need_adt(crate, "Segtree")
    names = [f["name"] for f in util.fields_of(adt)]
    R.DATA = [i for i, f in enumerate(util.fields_of(adt)) if f["ty"].replace("alloc::", "std::").startswith("std::vec::Vec<")][0]
    R.N = [i for i, f in enumerate(util.fields_of(adt)) if f["ty"] == "usize"][0]
    # helpers are the non-recursive methods that call SegtreeItem::push / update
    for nm, callee in (("push_at", "push"), ("merge_at", "update")):
        b = R.fn[nm]
        if util.self_recursive(b) or not calls_item(b, callee):
            raise Anchor("%s is expected to be the non-recursive helper calling SegtreeItem::%s" % (nm, callee))
    # every non-public, non-recursive function of the engine module that is not a role (methods of Segtree, free
    # functions, associated functions of private helper types such as an overlap classifier) is inlined
    rolekeys = {b_.key for b_ in R.fn.values()}
    R.helpers = [f_ for f_ in crate.bodies if not f_.is_closure and f_.kind in ("Fn", "AssocFn") and f_.vis != "pub" and f_.key not in rolekeys and not util.self_recursive(f_)
                 and "segtree_items" not in f_.path and not (crate.impl_of(f_) or {}).get("of_trait")]
    _A[0] = util.analyser(R.helpers, features=("comb", "fncall"))  # bool::then / Option::map with closures are case splits
    R.A_with = lambda extra: util.analyser(R.helpers + list(extra), features=("comb", "fncall"))
    return R


def P(I, n):
    al = getattr(I, "param_alias", None)
    if al and n in al:
        return al[n]
    return ("param", n, I.names.get(n))


def mid(a, b):
    return ("bin", "Div", ("bin", "Add", a, b), mk_int(2))


_EXP = {}


def _expansion(body):
    """virtual argument positions of a function: (argument index, field or None).  A by-value parameter whose type is a
    struct of the crate made of usize fields only (`node: Node { index, lo, hi }`) stands for one position per field, so
    that the rules read `(i, vl, vr)` off it as if they were passed one by one"""
    if body.key in _EXP:
        return _EXP[body.key]
    crate = body.crate
    out = []
    for p_ in range(body.arg_count):
        ty = str(body.locals[p_ + 1]["ty"])
        adt = next((a for a in crate.adts if a.get("kind") == "Struct" and a["path"] == ty), None)
        flds = util.fields_of(adt) if adt is not None else []
        if adt is not None and flds and all(str(f["ty"]) == "usize" for f in flds):
            out += [(p_, k_) for k_ in range(len(flds))]
        else:
            out.append((p_, None))
    _EXP[body.key] = out
    return out


def VN(body):
    return len(_expansion(body))


def VTY(body, k):
    p_, f_ = _expansion(body)[k]
    return "usize" if f_ is not None else str(body.locals[p_ + 1]["ty"])


def VA(body, ev):
    """the arguments of a call of `body`, one entry per virtual position"""
    from ..absint import mk_proj
    out = []
    for p_, f_ in _expansion(body):
        a = ev.args[p_] if p_ < len(ev.args) else None
        out.append(a if f_ is None or a is None else mk_proj(a, f_))
    return out


def VP(I, body, k):
    """the parameter (or the field of a struct parameter) at virtual position k, as a term"""
    from ..absint import mk_proj
    p_, f_ = _expansion(body)[k]
    base = P(I, p_ + 1)
    return base if f_ is None else mk_proj(base, f_)


def infer_positions(I, body):
    """(node position, vl position, vr position) of a self-recursive descent/build function (virtual positions, see VA)"""
    node = vl = vr = None
    for st in I.final_states:
        for ev in st.event_list():
            if not is_call_to(ev, body):
                continue
            va = VA(body, ev)
            for p in range(1, len(va)):
                a = va[p]
                if a is None or VTY(body, p) != "usize":
                    continue
                Pp = VP(I, body, p)
                if util.lin_equal(a, ("bin", "Add", ("bin", "Mul", Pp, mk_int(2)), mk_int(1))) or util.lin_equal(a, ("bin", "Add", ("bin", "Mul", Pp, mk_int(2)), mk_int(2))):
                    node = p
            if node is None:
                continue
            for a_ in range(1, len(va)):
                for b_ in range(a_ + 1, len(va)):
                    if va[a_] is None or va[b_] is None:
                        continue
                    Pa, Pb = VP(I, body, a_), VP(I, body, b_)
                    m = mid(Pa, Pb)
                    if _mid_equal(va[b_], Pa, Pb) and va[a_] == Pa and util.lin_equal(va[node], ("bin", "Add", ("bin", "Mul", VP(I, body, node), mk_int(2)), mk_int(1))):
                        vl, vr = a_, b_
    return node, vl, vr


def _mid_equal(t, a, b):
    """t is the midpoint (a+b)/2, accepting (a+b)>>1 and a+(b-a)/2"""
    for form in (mid(a, b), ("bin", "Shr", ("bin", "Add", a, b), mk_int(1)), ("bin", "Add", a, ("bin", "Div", ("bin", "Sub", b, a), mk_int(2)))):
        if t == form:
            return True
    if t[0] == "bin" and t[1] in ("Div", "Shr") and t[3] == (mk_int(2) if t[1] == "Div" else mk_int(1)):
        return util.lin_equal(t[2], ("bin", "Add", a, b))
    return False


def norm_mid(t, a, b):
    """rewrite accepted midpoint forms to the canonical (a+b)/2 so that zone axioms apply"""
    if not isinstance(t, tuple) or not t:
        return t
    if _mid_equal(t, a, b):
        return mid(a, b)
    if t[0] == "int":
        return t
    return tuple(norm_mid(x, a, b) if isinstance(x, tuple) else x for x in t)


_A = [None]
_DESCENT_KEYS = set()


class Loopified:
    """View of the analysis of a descent function whose TAIL call was turned into a loop
    (`loop { ..; l = ..; i = 2*i+2; vl = m+1 }`): every back edge is presented as a virtual recursive call
    with the new parameter values as arguments and its result returned unchanged, and the loop-carried
    parameters are presented as the function's parameters (they stand for the values of an arbitrary round,
    the first included).  All descent rules then read the loop as the recursion it replaces."""

    def __init__(self, I, head, body):
        from ..absint import Event

        self._I = I
        self.head = head
        u = I.uid(head)
        locs, _mem = I.loop_mod[head]
        self.param_alias = {n: ("phi", u, n) for n in range(1, body.arg_count + 1) if n in locs}
        finals = list(I.final_states)
        for k, st in enumerate(I.backedge_states.get(head, [])):
            ns = st.fork()
            args = []
            tys = []
            for n in range(1, body.arg_count + 1):
                v = ns.env.get(n)
                ty = body.locals[n]["ty"]
                tys.append(ty)
                if ty.startswith("&") and isinstance(v, tuple) and v and v[0] == "param":
                    v = ("ref", ("deref", v))
                args.append(v)
            res = ("vret", u, k)
            ev = Event("call", head, callee=body.path, fn={"def": body.key, "path": body.path, "name": body.name}, args=tuple(args), res=res, state=(ns.facts, ns.mem, ns.path), extra={"pure": False, "handled": False, "name": body.name, "trait": None, "argvals": [None] * len(args), "argtys": tys, "uid": ("v", head, k), "virtual": True, "in": None, "dest": None, "gpath": body.path})
            ns.add_event(ev)
            ns.env = dict(ns.env)
            ns.env[0] = res
            finals.append(ns)
        self.final_states = finals
        self.backedge_states = {}

    def __getattr__(self, k):
        return getattr(self._I, k)

    def all_end_states(self):
        return self.final_states


_loopified = {}


def analyse(body):
    """term-flow analysis with the crate's private non-role helper functions (children(i), mid(l, r), ...)
    inlined into their callers"""
    I = (_A[0] or util.analyse)(body)
    if body.key in _DESCENT_KEYS and len(I.loops) == 1 and I.backedge_states:
        k = id(I)
        if k not in _loopified:
            _loopified[k] = Loopified(I, list(I.loops)[0], body)
        return _loopified[k]
    return I


def rule_push_before_descend(col, R, rid, names, sfx=""):
    fk = util.fkey
    for nm in names:
        b = R.fn[nm]
        I = analyse(b)
        node, vl, vr = infer_positions(I, b)
        if node is None:
            raise Anchor("cannot infer the node parameter of %s" % b.path)
        Pi = VP(I, b, node)
        ncalls = 0
        for st in I.final_states:
            evs = st.event_list()
            for k, ev in enumerate(evs):
                if not is_call_to(ev, b):
                    continue
                ncalls += 1
                # (the node handed to push_at may travel in a one-field newtype, like the worker's own: compare position by position)
                pushed = any(is_call_to(e, R.fn["push_at"]) and (e.args[1] == Pi or Pi in [x for x in VA(R.fn["push_at"], e)[1:2]]) for e in evs[:k])
                key = "%s|recursive-call|node=%s" % (fk(b), tstr(VA(b, ev)[node]))
                if pushed:
                    col.ok(rid + sfx, b.loc(ev.bb), key, "push_at(i) precedes the descent")
                else:
                    col.violation(rid + sfx, "%s|descent-without-push" % fk(b), b.loc(ev.bb), "%s descends into child %s on a path without pushing the node's pending modifier first: the child does not see it and the fold is wrong for lazy items" % (b.path, tstr(VA(b, ev)[node])), {"path": st.path_list()})
        if ncalls == 0:
            col.violation(rid + sfx, "%s|no-recursion" % fk(b), b.loc(), "%s has no recursive call" % b.path)


def rule_geometry(col, R, rid, names, sfx=""):
    fk = util.fkey
    mids = {}
    for nm in names:
        b = R.fn[nm]
        I = analyse(b)
        node, vl, vr = infer_positions(I, b)
        if None in (node, vl, vr):
            raise Anchor("cannot infer node/bounds parameters of %s" % b.path)
        Pi, Pvl, Pvr = VP(I, b, node), VP(I, b, vl), VP(I, b, vr)
        seen = set()
        for st in I.final_states:
            for ev in st.event_list():
                if not is_call_to(ev, b):
                    continue
                va_ = VA(b, ev)
                a_i, a_l, a_r = va_[node], va_[vl], va_[vr]
                k = (ev.bb, a_i, a_l, a_r)
                if k in seen:
                    continue
                seen.add(k)
                left = util.lin_equal(a_i, ("bin", "Add", ("bin", "Mul", Pi, mk_int(2)), mk_int(1)))
                right = util.lin_equal(a_i, ("bin", "Add", ("bin", "Mul", Pi, mk_int(2)), mk_int(2)))
                ok = False
                if left:
                    ok = a_l == Pvl and _mid_equal(a_r, Pvl, Pvr)
                elif right:
                    ok = a_r == Pvr and a_l[0] == "bin" and a_l[1] == "Add" and a_l[3] == mk_int(1) and _mid_equal(a_l[2], Pvl, Pvr)
                key = "%s|child-%s" % (fk(b), "left" if left else "right" if right else "other")
                if ok:
                    col.ok(rid + sfx, b.loc(ev.bb), key, "(%s, %s, %s)" % (tstr(a_i), tstr(a_l), tstr(a_r)))
                else:
                    col.violation(rid + sfx, key, b.loc(ev.bb), "%s recurses with node %s and bounds (%s, %s); node 2i+1 must go with (vl, (vl+vr)/2) and 2i+2 with ((vl+vr)/2+1, vr): a different node than the one built for that range is addressed" % (b.path, tstr(a_i), tstr(a_l), tstr(a_r)))


def rule_helpers_geometry(col, R, rid, sfx="", only=None):
    fk = util.fkey
    for nm, callee in (("push_at", "push"), ("merge_at", "update"), ("rebuild_empty", "update")):
        if only is not None and nm not in only:
            continue
        b = R.fn[nm]
        I = analyse(b)
        node = 1 if nm != "rebuild_empty" else infer_positions(I, b)[0]
        Pi = VP(I, b, node)
        found = False
        for st in I.final_states:
            for ev in st.event_list():
                if ev.kind == "call" and ev.extra.get("name") == callee and (ev.extra.get("trait") or "").endswith("SegtreeItem"):
                    found = True
                    idx = []
                    for a in ev.args:
                        ix = None
                        if a[0] == "ref" and a[1][0] == "index" and a[1][1][0] == "field" and a[1][1][2] == R.DATA:
                            ix = a[1][2]
                        idx.append(ix)
                    ok = len(idx) == 3 and all(x is not None for x in idx) and idx[0] == Pi and util.lin_equal(idx[1], ("bin", "Add", ("bin", "Mul", Pi, mk_int(2)), mk_int(1))) and util.lin_equal(idx[2], ("bin", "Add", ("bin", "Mul", Pi, mk_int(2)), mk_int(2)))
                    key = "%s|%s(data[i], data[2i+1], data[2i+2])" % (fk(b), callee)
                    if ok:
                        col.ok(rid + sfx, b.loc(ev.bb), key, "operands are the node and its two children, left then right")
                    else:
                        col.violation(rid + sfx, "%s|helper-operands" % fk(b), b.loc(ev.bb), "%s calls SegtreeItem::%s on %s; expected (data[i], data[2i+1], data[2i+2])" % (b.path, callee, ", ".join(tstr(a) for a in ev.args)))
        if not found and nm == "rebuild_empty":
            # delegation: merge_at(i) on the own node (merge_at itself is checked above)
            for st in I.final_states:
                for ev in st.event_list():
                    if is_call_to(ev, R.fn["merge_at"]) and ev.args[1] == Pi:
                        found = True
                        col.ok(rid + sfx, b.loc(ev.bb), "%s|%s(data[i], data[2i+1], data[2i+2])" % (fk(b), callee), "delegates to merge_at(i)")
        if not found:
            col.violation(rid + sfx, "%s|helper-call" % fk(b), b.loc(), "%s does not call SegtreeItem::%s" % (b.path, callee))


def check(col, prog, tier, profile, fixture=None):
    crate = prog.crate(fixture or "rlib_segtree")
    R = seg_roles(crate)
    sfx = "" if profile == "dev" else "@" + profile
    fk = util.fkey
    col.rule("R1" + sfx, "push_at(own node) precedes every recursive call in the five descent functions", floor=14)
    col.rule("R2" + sfx, "merge_at(own node) follows the last recursive call in writing descents; rebuild merges after both builds", floor=5)
    col.rule("R3" + sfx, "geometry: (2i+1, vl, m) / (2i+2, m+1, vr), same midpoint; helpers use data[i], data[2i+1], data[2i+2]", floor=14)
    col.rule("R4" + sfx, "routing keeps vl<=l<=r<=vr and partitions [l,r] in index order (inductive)", floor=8)
    col.rule("R5" + sfx, "ask merges (result of left child, result of right child)", floor=1)
    col.rule("R6" + sfx, "build order left before right; leaves take iter.next(); constructors build from (0,0,n-1)", floor=5)
    col.rule("R7" + sfx, "built-in lazy items: push applies md to both children then resets; modify updates v and md; merge md=default", floor=12)
    col.rule("R8" + sfx, "Combinator forwards every method component-wise", floor=7)

    rule_push_before_descend(col, R, "R1", DESCENTS, sfx)

    # ---- R2
    for nm in WRITERS + ["rebuild"]:
        b = R.fn[nm]
        I = analyse(b)
        node = infer_positions(I, b)[0]
        Pi = VP(I, b, node)
        for st in I.final_states:
            evs = st.event_list()
            recs = [k for k, e in enumerate(evs) if is_call_to(e, b)]
            if not recs:
                continue
            merges = [k for k, e in enumerate(evs) if is_call_to(e, R.fn["merge_at"]) and e.args[1] == Pi]
            key = "%s|re-merge|calls=%d" % (fk(b), len(recs))
            if merges and max(merges) > max(recs):
                col.ok("R2" + sfx, b.loc(evs[max(recs)].bb), key, "merge_at(i) after the last recursive call")
            else:
                col.violation("R2" + sfx, "%s|no-re-merge" % fk(b), b.loc(evs[max(recs)].bb), "%s writes below a node and returns without recomputing the node's aggregate (merge_at): the parent aggregate is stale" % b.path, {"path": st.path_list()})

    # ---- R3
    rule_geometry(col, R, "R3", DESCENTS + BUILDS, sfx)
    rule_helpers_geometry(col, R, "R3", sfx)

    # ---- R4
    rule_routing(col, R, "R4", sfx)

    # ---- R5
    b = R.fn["ask_internal"]
    I = analyse(b)
    node = infer_positions(I, b)[0]
    Pi = VP(I, b, node)
    nm5 = 0
    for st in I.final_states:
        evs = st.event_list()
        for ev in evs:
            if ev.kind == "call" and ev.extra.get("name") == "merge" and (ev.extra.get("trait") or "").endswith("SegtreeItem"):
                nm5 += 1
                vals = ev.extra["argvals"]
                ok = False
                if vals[0] is not None and vals[1] is not None and vals[0][0] == "call" and vals[1][0] == "call":
                    from ..absint import mk_proj as _mp
                    p5_, f5_ = _expansion(b)[node]
                    n0 = vals[0][2][p5_] if f5_ is None else _mp(vals[0][2][p5_], f5_)
                    n1 = vals[1][2][p5_] if f5_ is None else _mp(vals[1][2][p5_], f5_)
                    ok = util.lin_equal(n0, ("bin", "Add", ("bin", "Mul", Pi, mk_int(2)), mk_int(1))) and util.lin_equal(n1, ("bin", "Add", ("bin", "Mul", Pi, mk_int(2)), mk_int(2)))
                key = "%s|merge-operands" % fk(b)
                if ok:
                    col.ok("R5" + sfx, b.loc(ev.bb), key, "merge(left child's result, right child's result)")
                else:
                    col.violation("R5" + sfx, key, b.loc(ev.bb), "ask merges its sub-results in the wrong order (or not the two children's results): non-commutative merges give a wrong fold")
    if nm5 == 0:
        col.violation("R5" + sfx, "%s|no-merge" % fk(b), b.loc(), "ask_internal never merges two sub-results")

    # ---- R6
    b = R.fn["rebuild"]
    I = analyse(b)
    node, vl, vr = infer_positions(I, b)
    Pi = VP(I, b, node)
    for st in I.final_states:
        evs = st.event_list()
        recs = [e for e in evs if is_call_to(e, b)]
        if recs:
            ok = len(recs) == 2 and util.lin_equal(VA(b, recs[0])[node], ("bin", "Add", ("bin", "Mul", Pi, mk_int(2)), mk_int(1))) and util.lin_equal(VA(b, recs[1])[node], ("bin", "Add", ("bin", "Mul", Pi, mk_int(2)), mk_int(2)))
            if ok:
                col.ok("R6" + sfx, b.loc(recs[0].bb), "%s|left-before-right" % fk(b), "the left subtree consumes the iterator first")
            else:
                col.violation("R6" + sfx, "%s|left-before-right" % fk(b), b.loc(recs[0].bb), "rebuild does not build the left child before the right child: the iterator is consumed out of array order (mirrored array)")
        else:
            stores = [e for e in evs if e.kind == "store" and e.place[0] == "index" and e.place[2] == Pi]
            nxt = [e for e in evs if e.kind == "call" and e.extra.get("name") == "next"]
            ok = len(stores) == 1 and len(nxt) == 1 and any(s == nxt[0].res for s in subterms(stores[0].val))
            if ok:
                col.ok("R6" + sfx, b.loc(), "%s|leaf-takes-next" % fk(b), "data[i] = iter.next().unwrap()")
            else:
                col.violation("R6" + sfx, "%s|leaf-takes-next" % fk(b), b.loc(), "a leaf of rebuild must store exactly the next element of the iterator into data[i]")
    rule_build_empty(col, R, "R6", sfx)
    for cn, builder in (("new", "rebuild_empty"), ("from_slice", "rebuild"), ("from_iter", "rebuild")):
        b = R.fn[cn]
        I = analyse(b)
        for st in I.final_states:
            evs = st.event_list()
            raw = [e for e in evs if is_call_to(e, R.fn["new_raw"])]
            bl = [e for e in evs if is_call_to(e, R.fn[builder])]
            ok = len(raw) == 1 and len(bl) == 1 and evs.index(raw[0]) < evs.index(bl[0])
            if ok:
                e = bl[0]
                bva = VA(R.fn[builder], e)
                bn, bvl, bvr = infer_positions(analyse(R.fn[builder]), R.fn[builder])
                a_i, a_l, a_r = bva[bn], bva[bvl], bva[bvr]
                nfield = None
                for s in subterms(a_r):
                    if s[0] == "proj" and s[1] == R.N or (s[0] == "load" and s[2][0] == "field" and s[2][2] == R.N):
                        nfield = s
                ok = a_i == mk_int(0) and a_l == mk_int(0) and nfield is not None and util.lin_equal(a_r, ("bin", "Sub", nfield, mk_int(1)))
                if not ok and a_i == mk_int(0) and a_l == mk_int(0):
                    # `build(0, 0, n - 1)` with the constructor's own `n`: the same number when new_raw stores the size it is
                    # given into the n field on every path
                    Iraw = analyse(R.fn["new_raw"])
                    npos = None
                    for k_ in range(R.fn["new_raw"].arg_count):
                        pk = ("param", k_ + 1, Iraw.names.get(k_ + 1))
                        rets = [util.ret_term(s_) for s_ in Iraw.final_states]
                        if rets and all(r_[0] == "agg" and len(r_[2]) > R.N and r_[2][R.N] == pk for r_ in rets):
                            npos = k_
                    if npos is not None and npos < len(raw[0].args):
                        ok = util.lin_equal(a_r, ("bin", "Sub", raw[0].args[npos], mk_int(1)))
            key = "%s|builds-root" % fk(b)
            if ok:
                col.ok("R6" + sfx, b.loc(), key, "new_raw(..) then %s(0, 0, n-1)" % builder)
            else:
                col.violation("R6" + sfx, key, b.loc(), "%s must allocate with new_raw and build from the root (0, 0, n-1)" % b.path)

    # ---- R7 / R8 items
    from . import c01_items

    c01_items.check_items(col, crate, sfx)


def rule_build_empty(col, R, rid, sfx):
    """rebuild_empty (the tree of `new(n, value)`): every node is either a leaf (vl == vr on the path; it keeps the fill
    value) or builds both children and then recomputes itself - a path that returns early (`if l == 1 { return }`) leaves a
    subtree of unmerged fill values behind"""
    fk = util.fkey
    b = R.fn["rebuild_empty"]
    I = analyse(b)
    node, vl, vr = infer_positions(I, b)
    Pi, Pvl, Pvr = VP(I, b, node), VP(I, b, vl), VP(I, b, vr)
    for st in I.final_states:
        evs = st.event_list()
        recs = [e for e in evs if is_call_to(e, b)]
        key = "%s|every-node-built" % fk(b)
        if recs:
            kids = sorted(1 if util.lin_equal(VA(b, e)[node], ("bin", "Add", ("bin", "Mul", Pi, mk_int(2)), mk_int(1))) else 2 if util.lin_equal(VA(b, e)[node], ("bin", "Add", ("bin", "Mul", Pi, mk_int(2)), mk_int(2))) else 0 for e in recs)
            last = max(k for k, e in enumerate(evs) if is_call_to(e, b))
            merged = any((is_call_to(e, R.fn["merge_at"]) and e.args[1] == Pi) or (e.kind == "call" and e.extra.get("name") in ("update", "merge") and (e.extra.get("trait") or "").endswith("SegtreeItem")) for e in evs[last + 1:])
            ok = kids == [1, 2] and merged
        else:
            ok = zones.entails(st.facts, "Eq", Pvl, Pvr, I.tys)
        if ok:
            col.ok(rid + sfx, b.loc(), key + ("|inner" if recs else "|leaf"), "both children built, then the node recomputed" if recs else "returns without building only at a leaf (vl == vr)")
        else:
            col.violation(rid + sfx, key, b.loc(), "%s has a path that %s: the nodes below keep unmerged fill values" % (b.path, "does not build both children and recompute the node" if recs else "returns without building although the node is not known to be a leaf"))


def rule_routing(col, R, rid, sfx, only=None):
    """inductive invariant per function family, see DESIGN.md §2.2"""
    fk = util.fkey
    fams = {
        "ask_internal": "range",
        "modify_internal": "range",
        "set_internal": "point",
        "lower_bound_internal": "fwd",
        "lower_bound_rev_internal": "rev",
    }
    for nm, fam in fams.items():
        if only and nm not in only:
            continue
        b = R.fn[nm]
        I = analyse(b)
        node, vl, vr = infer_positions(I, b)
        Pvl, Pvr = VP(I, b, vl), VP(I, b, vr)
        # query parameters: the remaining usize parameters, in order
        q = [p for p in range(1, VN(b)) if p not in (node, vl, vr) and VTY(b, p) == "usize"]
        if fam == "point":
            if len(q) != 1:
                raise Anchor("%s: expected one index parameter" % b.path)
        elif len(q) != 2:
            raise Anchor("%s: expected (l, r) query parameters, found %d usize parameters" % (b.path, len(q)))
        for p in range(1, b.arg_count + 1):
            if b.locals[p]["ty"] == "usize":
                I.tys[P(I, p)] = "usize"
        for p in range(1, VN(b)):
            if VTY(b, p) == "usize":
                I.tys[VP(I, b, p)] = "usize"

        def inv_facts(l, r, a, c):
            if fam == "point":
                return [("Le", a, l), ("Le", l, c)]
            fs = [("Le", a, l), ("Le", l, r), ("Le", r, c)]
            if fam == "fwd":
                fs.append(("Eq", r, c))
            if fam == "rev":
                fs.append(("Eq", l, a))
            return fs

        Pl = VP(I, b, q[0])
        Pr = VP(I, b, q[1]) if fam != "point" else Pl
        entry = inv_facts(Pl, Pr, Pvl, Pvr)
        seen = set()
        for st in I.final_states:
            evs = st.event_list()
            recs = [e for e in evs if is_call_to(e, b)]
            if not recs:
                continue
            ranges = []
            for ev in recs:
                facts = set(ev.state[0])
                for (op, x, y) in entry:
                    facts.add(("eq", ("bin", op, x, y), 1))
                nf = frozenset((f[0], norm_mid(f[1], Pvl, Pvr), f[2]) if f[0] != "imp" else f for f in facts)
                z = zones.zone_of(nf, I.tys)
                va_ = VA(b, ev)
                al = norm_mid(va_[q[0]], Pvl, Pvr)
                ar = norm_mid(va_[q[1]], Pvl, Pvr) if fam != "point" else al
                avl, avr = norm_mid(va_[vl], Pvl, Pvr), norm_mid(va_[vr], Pvl, Pvr)
                ranges.append((al, ar, z))
                goal = inv_facts(al, ar, avl, avr)
                bad = [(op, x, y) for (op, x, y) in goal if not z.entails(op, x, y)]
                k = (ev.bb, ev.args, frozenset(f for f in ev.state[0] if f[0] != "imp"))
                key = "%s|containment|%s" % (fk(b), tstr(va_[node]))
                if k in seen:
                    continue
                seen.add(k)
                if not bad:
                    col.ok(rid + sfx, b.loc(ev.bb), key, "callee invariant entailed: " + ", ".join("%s %s %s" % (tstr(x), op, tstr(y)) for op, x, y in goal))
                else:
                    op, x, y = bad[0]
                    col.violation(rid + sfx, "%s|containment" % fk(b), b.loc(ev.bb), "%s recurses with a query range that is not provably inside the child's node range (cannot entail %s %s %s): elements outside the node would be folded or the range is empty" % (b.path, tstr(x), op, tstr(y)), {"facts": [(f[0], tstr(f[1]), f[2]) for f in ev.state[0] if f[0] != "imp" and "ovf" not in tstr(f[1])]})
            # partition of [l, r] in index order on this path (range families)
            if fam == "range":
                # judged under the whole path's facts (a later branch may decide which pieces exist)
                facts = set(st.facts)
                for (op, x, y) in entry:
                    facts.add(("eq", ("bin", op, x, y), 1))
                z = zones.zone_of(frozenset((f[0], norm_mid(f[1], Pvl, Pvr), f[2]) if f[0] != "imp" else f for f in facts), I.tys)
                def tiles(rs):
                    good = z.entails("Eq", rs[0][0], Pl) and z.entails("Eq", rs[-1][1], Pr)
                    for (a1, b1, _), (a2, b2, _) in zip(rs, rs[1:]):
                        good = good and z.entails("Eq", ("bin", "Add", b1, mk_int(1)), a2)
                    return good

                # the children may be visited in either order (they are disjoint subtrees); which answer is the left
                # operand of the merge is the operand rule's business, not the order of the calls
                ok = tiles(ranges) or tiles(ranges[::-1])
                key = "%s|partition|%d" % (fk(b), len(ranges))
                if ok:
                    col.ok(rid + sfx, b.loc(recs[0].bb), key, "the routed ranges concatenate to [l, r] in index order")
                else:
                    col.violation(rid + sfx, "%s|partition" % fk(b), b.loc(recs[0].bb), "the query ranges handed to the children on one path do not partition [l, r] in index order: %s" % ", ".join("[%s, %s]" % (tstr(a), tstr(c)) for a, c, _ in ranges))
            if fam in ("fwd", "rev"):
                # the searches visit the near part first: the first routed range starts at the query's own near end
                # (no element between it and the child's range is skipped — `l < m` instead of `l <= m` loses index m),
                # and a second range continues exactly where the first one ended
                facts = set(st.facts)
                for (op, x, y) in entry:
                    facts.add(("eq", ("bin", op, x, y), 1))
                z = zones.zone_of(frozenset((f[0], norm_mid(f[1], Pvl, Pvr), f[2]) if f[0] != "imp" else f for f in facts), I.tys)
                if fam == "fwd":
                    ok = z.entails("Eq", ranges[0][0], Pl)
                    for (a1, b1, _), (a2, b2, _) in zip(ranges, ranges[1:]):
                        ok = ok and z.entails("Eq", ("bin", "Add", b1, mk_int(1)), a2)
                else:
                    ok = z.entails("Eq", ranges[0][1], Pr)
                    for (a1, b1, _), (a2, b2, _) in zip(ranges, ranges[1:]):
                        ok = ok and z.entails("Eq", ("bin", "Add", b2, mk_int(1)), a1)
                key = "%s|no-gap|%d" % (fk(b), len(ranges))
                if ok:
                    col.ok(rid + sfx, b.loc(recs[0].bb), key, "the routed ranges start at the query's near end and continue without a gap")
                else:
                    col.violation(rid + sfx, "%s|no-gap" % fk(b), b.loc(recs[0].bb), "the ranges the search hands to the children on one path leave a gap in [l, r]: %s — an index is never examined" % ", ".join("[%s, %s]" % (tstr(a), tstr(c)) for a, c, _ in ranges))
    # entries establish the invariant at the root
    for pub, internal, fam in (("ask", "ask_internal", "range"), ("modify", "modify_internal", "range"), ("set", "set_internal", "point"), ("lower_bound", "lower_bound_internal", "fwd"), ("lower_bound_rev", "lower_bound_rev_internal", "rev")):
        if only and internal not in only:
            continue
        b = R.fn[pub]
        tgt = R.fn[internal]
        I = analyse(b)
        It = analyse(tgt)
        node, vl, vr = infer_positions(It, tgt)
        q = [p for p in range(1, VN(tgt)) if p not in (node, vl, vr) and VTY(tgt, p) == "usize"]
        for st in I.final_states:
            for ev in st.event_list():
                if not is_call_to(ev, tgt):
                    continue
                z = zones.zone_of(ev.state[0], I.tys)
                vt_ = VA(tgt, ev)
                n = None
                for s in [vt_[vr]] + list(subterms(vt_[vr])):
                    if s[0] == "load" and s[2][0] == "field" and s[2][2] == R.N:
                        n = s
                ok = vt_[node] == mk_int(0) and vt_[vl] == mk_int(0) and n is not None and util.lin_equal(vt_[vr], ("bin", "Sub", n, mk_int(1)))
                l = vt_[q[0]]
                r = vt_[q[1]] if fam != "point" else l
                I.tys[l] = "usize"
                if fam == "fwd":
                    ok = ok and r == vt_[vr]
                elif fam == "rev":
                    ok = ok and l == mk_int(0)
                if fam in ("range", "point"):
                    ok = ok and z.entails("Le", l, r) and z.entails("Le", r, vt_[vr])
                # the query handed to the descent is the caller's own: the entry's index parameters, in order
                # (`lower_bound_internal(.., 0, n-1, ..)` searches from the wrong end and no test starts elsewhere)
                own = [P(I, p_ + 1) for p_ in range(1, b.arg_count) if str(b.locals[p_ + 1]["ty"]) == "usize"]
                passed = {"range": [l, r], "point": [l], "fwd": [l], "rev": [r]}[fam]
                key = "%s|query-is-the-callers" % fk(b)
                if len(own) == len(passed):
                    if own == passed:
                        col.ok(rid + sfx, b.loc(ev.bb), key, "the descent is asked about %s" % ", ".join(tstr(x) for x in own))
                    else:
                        col.violation(rid + sfx, key, b.loc(ev.bb), "%s starts the descent on (%s) instead of its own argument(s) (%s)" % (b.path, ", ".join(tstr(x) for x in passed), ", ".join(tstr(x) for x in own)))
                key = "%s|root-entry" % fk(b)
                if ok:
                    col.ok(rid + sfx, b.loc(ev.bb), key, "root call (0, 0, n-1) with the invariant established by the asserts")
                else:
                    col.violation(rid + sfx, key, b.loc(ev.bb), "%s does not enter the descent at the root (0, 0, n-1) with 0 <= l <= r <= n-1 established" % b.path)
