pub struct ShowSettings {
    pub inf_32: u32,
    pub inf_64: u64,
    pub inf_128: u128,
    pub float_precision: usize,
    pub item_width: usize,
    pub colors: bool,
    pub mint_max: i64,
    pub mint_rational: bool,
}

impl ShowSettings {
    pub const fn new() -> Self {
        Self {
            inf_32: 10u32.pow(9),
            inf_64: 10u64.pow(18),
            inf_128: 10u128.pow(36),
            float_precision: 9,
            item_width: 0,
            colors: true,
            mint_max: 100,
            mint_rational: true,
        }
    }
}

impl Default for ShowSettings {
    fn default() -> Self {
        Self::new()
    }
}

pub static mut SHOW_SETTINGS: ShowSettings = ShowSettings::new();

pub trait Show {
    fn show(&self, settings: &ShowSettings) -> String;
}

pub trait ShowPretty: Show {
    fn show_pretty(&self, settings: &ShowSettings) -> String {
        self.show(settings)
    }
}
