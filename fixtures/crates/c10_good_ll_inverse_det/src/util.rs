use std::mem::swap;

use super::{circle::Circle, line::Line, point::Point};

pub const EPS: f64 = 1e-9;

pub fn dist(a: &Point, b: &Point) -> f64 {
    (a - b).len()
}

pub fn parallel(a: &Line, b: &Line) -> bool {
    a.ort().cp(&b.ort()).abs() < EPS
}

pub fn intersect_ll(u: &Line, v: &Line) -> Option<Point> {
    if parallel(u, v) {
        return None;
    }
    // u.a * x + u.b * y + u.c == 0
    // v.a * x + v.b * y + v.c == 0
    let inv = 1.0 / (u.a * v.b - u.b * v.a);
    let x = (u.b * v.c - u.c * v.b) * inv;
    let y = (u.c * v.a - u.a * v.c) * inv;
    Some(Point::new(x, y))
}

pub enum CircleLineIntersection {
    None,
    Touch(Point),
    Intersect(Point, Point),
}

impl IntoIterator for CircleLineIntersection {
    type Item = Point;
    type IntoIter = std::iter::Flatten<std::array::IntoIter<Option<Point>, 2>>;

    fn into_iter(self) -> Self::IntoIter {
        match self {
            CircleLineIntersection::None => [None, None],
            CircleLineIntersection::Touch(p) => [Some(p), None],
            CircleLineIntersection::Intersect(a, b) => [Some(a), Some(b)],
        }
        .into_iter()
        .flatten()
    }
}

pub fn intersect_cl(c: &Circle, l: &Line) -> CircleLineIntersection {
    let d = l.dist(&c.c);
    if d > c.r + EPS {
        CircleLineIntersection::None
    } else if d > c.r - EPS {
        let mut ort = Point::new(l.a, l.b);
        ort = ort / ort.len();
        if l.a * c.c.x + l.b * c.c.y + l.c > 0.0 {
            ort = ort * -1.0;
        }
        CircleLineIntersection::Touch(c.c + ort * d)
    } else {
        let mut ort = Point::new(l.a, l.b);
        if ort.len() != 0.0 {
            ort = ort / ort.len();
        }
        if l.a * c.c.x + l.b * c.c.y + l.c > 0.0 {
            ort = ort * -1.0;
        }
        let par = Point::new(-ort.y, ort.x);
        let ort = ort * d;
        let side = (c.r * c.r - d * d).max(0.0).sqrt();
        CircleLineIntersection::Intersect(c.c + ort + par * side, c.c + ort - par * side)
    }
}

#[derive(Copy, Clone, Debug)]
pub enum CircleIntersection {
    None,
    Same,
    TouchInside(Point),
    TouchOutside(Point),
    Intersect(Point, Point),
}

impl IntoIterator for CircleIntersection {
    type Item = Point;
    type IntoIter = std::iter::Flatten<std::array::IntoIter<Option<Point>, 2>>;

    fn into_iter(self) -> Self::IntoIter {
        match self {
            CircleIntersection::None | CircleIntersection::Same => [None, None],
            CircleIntersection::TouchInside(p) | CircleIntersection::TouchOutside(p) => [Some(p), None],
            CircleIntersection::Intersect(a, b) => [Some(a), Some(b)],
        }
        .into_iter()
        .flatten()
    }
}

pub fn intersect_cc<'a>(mut a: &'a Circle, mut b: &'a Circle) -> CircleIntersection {
    if a.r < b.r {
        swap(&mut a, &mut b);
    }
    let d = dist(&a.c, &b.c);
    if d < EPS && a.r < b.r + EPS {
        return CircleIntersection::Same;
    }
    if d < a.r - b.r - EPS {
        CircleIntersection::None
    } else if d < a.r - b.r + EPS {
        CircleIntersection::TouchInside(a.c + (b.c - a.c) / d * a.r)
    } else if d < a.r + b.r - EPS {
        let line = Line::new(
            -a.c.x * 2.0 + b.c.x * 2.0,
            -a.c.y * 2.0 + b.c.y * 2.0,
            a.c.x.powi(2) + a.c.y.powi(2) - b.c.x.powi(2) - b.c.y.powi(2) - a.r.powi(2) + b.r.powi(2),
        );
        match intersect_cl(a, &line) {
            CircleLineIntersection::None => CircleIntersection::None,
            CircleLineIntersection::Touch(p) => CircleIntersection::TouchOutside(p),
            CircleLineIntersection::Intersect(u, v) => CircleIntersection::Intersect(u, v),
        }
    } else if d < a.r + b.r + EPS {
        CircleIntersection::TouchOutside(a.c + (b.c - a.c) / d * a.r)
    } else {
        CircleIntersection::None
    }
}
