"""Check plumbing: rule instances, floors, violations, known findings, evidence files."""
import json
import os
import re
import sys
import time

VERIF = os.path.dirname(os.path.dirname(os.path.abspath(__file__)))
KNOWN_FILE = os.path.join(VERIF, "known-findings.txt")


class Anchor(Exception):
    """an anchor the rule pack needs is missing (fail closed)"""


def kf_norm(key):
    """a violation key with the NAMES of generic parameters blanked (`Gen::<A,C>::next_raw` and `Gen::<MUL,INC>::next_raw` are
    the same function): a listed finding stays the same finding when a type or const parameter is renamed"""
    prev = None
    while prev != key:
        prev = key
        key = re.sub(r"::<[^<>]*>", "::<_>", key)
    return key


def load_known(pid):
    known = {}
    if not os.path.exists(KNOWN_FILE):
        return known
    for line in open(KNOWN_FILE):
        line = line.strip()
        if not line or line.startswith("#"):
            continue
        m = re.match(r"known:\s+property=(\S+)\s+key=(\S+)\s+(.*)$", line)
        if m and m.group(1) == pid:
            known[kf_norm(m.group(2))] = m.group(3)
    return known


class Collector:
    """Collects rule instances and violations.  Used for /repo itself and for fixtures."""

    def __init__(self, label=""):
        self.label = label
        self.rules = {}  # rule -> dict(desc, instances=[...])
        self.violations = []  # dict(rule, key, loc, msg, detail)
        self.notes = []
        self.obligations = 0
        self.discharged = 0

    def rule(self, rid, desc, floor=0):
        r = self.rules.setdefault(rid, {"desc": desc, "floor": floor, "instances": []})
        r["desc"] = desc
        r["floor"] = max(r["floor"], floor)
        return r

    def instance(self, rid, loc, key, ok=True, detail=None, nontrivial=True):
        r = self.rules.setdefault(rid, {"desc": "", "floor": 0, "instances": []})
        r["instances"].append({"loc": loc, "key": key, "ok": bool(ok), "detail": detail, "nontrivial": nontrivial})

    def ok(self, rid, loc, key, detail=None, nontrivial=True):
        self.instance(rid, loc, key, True, detail, nontrivial)

    def violation(self, rid, key, loc, msg, detail=None):
        """key: '<def-path>|<construct>' (no line numbers) — the rule id is prefixed here"""
        full = ("%s|%s" % (rid, key)).replace(" ", "")
        self.instance(rid, loc, key, False, msg)
        if any(v["key"] == full for v in self.violations):
            return  # one report per (rule, construct); further paths to the same construct add nothing
        self.violations.append({"rule": rid, "key": full, "loc": loc, "msg": msg, "detail": detail})

    def obligation(self, discharged):
        self.obligations += 1
        if discharged:
            self.discharged += 1

    def check_floors(self):
        for rid, r in sorted(self.rules.items()):
            n = len(r["instances"])
            if n < r["floor"]:
                self.violation(
                    "FLOOR",
                    "%s|instances" % rid,
                    "-",
                    "rule %s matched %d instance(s), fewer than the floor %d counted by hand on the reference tree: the rule has lost sight of the code (fail closed)" % (rid, n, r["floor"]),
                )

    def count(self):
        return sum(len(r["instances"]) for r in self.rules.values())

    def count_nontrivial(self):
        s = set()
        for rid, r in self.rules.items():
            for i in r["instances"]:
                if i["nontrivial"]:
                    s.add((rid, i["key"]))
        return len(s)


class Prefixed:
    """A collector view for a rule pack run on behalf of another property (the io rules under the tensor round trip):
    same collector, rule ids prefixed with the pack they come from."""

    def __init__(self, col, prefix):
        object.__setattr__(self, "_c", col)
        object.__setattr__(self, "_p", prefix)
        object.__setattr__(self, "_own", {})

    def rule(self, rid, desc, floor=0):
        return self._c.rule(self._p + rid, desc, floor)

    def instance(self, rid, loc, key, ok=True, detail=None, nontrivial=True):
        self._c.instance(self._p + rid, loc, key, ok, detail, nontrivial)

    def ok(self, rid, loc, key, detail=None, nontrivial=True):
        self._c.instance(self._p + rid, loc, key, True, detail, nontrivial)

    def violation(self, rid, key, loc, msg, detail=None):
        self._c.violation(self._p + rid, key, loc, msg, detail)

    def obligation(self, discharged):
        self._c.obligation(discharged)

    def __getattr__(self, name):
        own = object.__getattribute__(self, "_own")
        if name in own:
            return own[name]
        if name in ("samples", "extra"):
            own[name] = [] if name == "samples" else {}
            return own[name]
        return getattr(object.__getattribute__(self, "_c"), name)

    def __setattr__(self, name, value):
        self._own[name] = value   # samples / extra of the borrowed pack stay with the view


class Check(Collector):
    def __init__(self, pid, tier, level, seed=0):
        super().__init__(pid)
        self.pid = pid
        self.tier = tier
        self.level = level
        self.seed = seed
        self.t0 = time.time()
        self.analysed = {}
        self.fixtures = []
        self.explanation = ""
        self.undecided = []
        self.assumptions = []
        self.trusted_base = []
        self.samples = []
        self.programs = 0
        self.disagreements_checked = 0
        self.extra = {}

    def fixture_result(self, name, kind, expected, got, ok):
        self.fixtures.append({"fixture": name, "kind": kind, "expected": expected, "reported": got, "ok": ok})
        if not ok:
            self.violation(
                "FIXTURE",
                "%s|%s" % (name, kind),
                "fixtures/%s" % name,
                "control fixture did not behave: expected %s, checker reported %s — the checker itself is broken (fail closed)" % (expected, got),
            )

    def finish(self):
        self.check_floors()
        known = load_known(self.pid)
        real = []
        for v in self.violations:
            if kf_norm(v["key"]) in known:
                print("KNOWN-FINDING: property=%s %s [%s] %s" % (self.pid, known[kf_norm(v["key"])], v["key"], v["loc"]))
                v["known"] = True
            else:
                real.append(v)
        ev_dir = os.environ.get("VERIF_EVIDENCE_DIR") or os.path.join(VERIF, "evidence")  # scratch runs (seeded copies) write elsewhere
        rep_dir = os.path.join(ev_dir, "reports")
        os.makedirs(rep_dir, exist_ok=True)
        for old in os.listdir(rep_dir):   # replay files are those of this run only
            if old.startswith(self.pid + "-"):
                os.unlink(os.path.join(rep_dir, old))
        for v in real:
            fname = re.sub(r"[^A-Za-z0-9_.-]+", "_", "%s-%s" % (self.pid, v["key"]))[:150] + ".json"
            path = os.path.join(rep_dir, fname)
            with open(path, "w") as fh:
                json.dump({"property": self.pid, "tier": self.tier, **v}, fh, indent=1, default=str)
            print("  %s: %s: [%s] %s" % (v["loc"], v["rule"], v["key"], v["msg"]))
            print("VIOLATION property=%s replay=%s" % (self.pid, path))
        wall = time.time() - self.t0
        rules_out = {}
        for rid, r in sorted(self.rules.items()):
            insts = r["instances"]
            rules_out[rid] = {
                "desc": r["desc"],
                "floor": r["floor"],
                "instances": len(insts),
                "failed": sum(1 for i in insts if not i["ok"]),
                "sites": [{"loc": i["loc"], "key": i["key"], "ok": i["ok"], "detail": i["detail"]} for i in insts[:60]],
            }
        cov = {
            "evaluations": self.count(),
            "distinct_nontrivial": self.count_nontrivial(),
            "rule": "one evaluation per (rule, site) instance found in the exported MIR of /repo's current tree (plus control fixtures); an instance is non-trivial when its verdict needed a path, dominance, term-equality or numeric-entailment argument rather than mere presence; distinct = distinct (rule, instance key)",
            "samples": self.samples[:12] if self.samples else [{"rule": rid, **r["instances"][0]} for rid, r in list(self.rules.items())[:8] if r["instances"]],
            "explanation": self.explanation,
            "analysed": self.analysed,
            "rules": rules_out,
            "fixtures": self.fixtures,
            "undecided_clauses": self.undecided,
            "known_findings_listed": sorted(known),
            "exhaustive": False,
        }
        if self.level == "proof":
            cov["obligations"] = self.obligations
            cov["discharged"] = self.discharged
            cov["checker_cmd"] = "cd /verif && bin/vcheck %s --tier %s" % (self.pid, self.tier)
            cov["trusted_base"] = self.trusted_base
        if self.level == "translation_validation":
            cov["programs"] = self.programs
            cov["disagreements_checked"] = self.disagreements_checked
        cov.update(self.extra)
        ev = {
            "property_id": self.pid,
            "tier": self.tier,
            "seed": self.seed,
            "level": self.level,
            "coverage": cov,
            "assumptions": self.assumptions,
            "wall_s": round(wall, 3),
            "violations": len(real),
        }
        os.makedirs(ev_dir, exist_ok=True)
        with open(os.path.join(ev_dir, "%s.json" % self.pid), "w") as fh:
            json.dump(ev, fh, indent=1, default=str)
        for rid, r in sorted(self.rules.items()):
            insts = r["instances"]
            bad = sum(1 for i in insts if not i["ok"])
            print("  rule %-10s %3d instance(s) (floor %d)%s  %s" % (rid, len(insts), r["floor"], "  %d FAILED" % bad if bad else "", r["desc"][:90]))
        print("%s tier=%s: %d rule instances, %d violation(s), %d known finding(s), %.1fs" % (self.pid, self.tier, self.count(), len(real), len(self.violations) - len(real), wall))
        return 1 if real else 0
