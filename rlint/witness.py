"""E9 — compile-pass / compile-fail witnesses type-checked against /repo's current sources.

A witness is a throw-away crate in a temp dir (outside /repo and /verif) with path dependencies
into /repo; it is type-checked with `cargo check --offline` (no code is run) and removed."""
import os
import shutil
import subprocess
import tempfile

from .model import REPO


def _mk(name, src, deps, kind="lib", repo=None, extra_files=None, edition="2021"):
    repo = repo or REPO
    d = tempfile.mkdtemp(prefix="vwit.")
    os.makedirs(os.path.join(d, "src"))
    dep_lines = "\n".join('%s = { path = "%s" }' % (k, os.path.join(repo, v)) for k, v in (deps or {}).items())
    with open(os.path.join(d, "Cargo.toml"), "w") as fh:
        fh.write('[package]\nname = "%s"\nversion = "0.1.0"\nedition = "%s"\n\n[workspace]\n\n[dependencies]\n%s\n' % (name, edition, dep_lines))
    with open(os.path.join(d, "src", "lib.rs" if kind == "lib" else "main.rs"), "w") as fh:
        fh.write(src)
    for rel, content in (extra_files or {}).items():
        p = os.path.join(d, rel)
        os.makedirs(os.path.dirname(p), exist_ok=True)
        with open(p, "w") as fh:
            fh.write(content)
    lock = os.path.join(repo, "Cargo.lock")
    if os.path.exists(lock):
        shutil.copy(lock, os.path.join(d, "Cargo.lock"))
    return d


def check_crate(name, src, deps=None, kind="lib", repo=None, toolchain=None, extra_files=None, keep=False, cargo_args=None):
    """returns (compiled_ok, combined output)"""
    d = _mk(name, src, deps, kind, repo, extra_files)
    try:
        env = dict(os.environ)
        env["CARGO_NET_OFFLINE"] = "true"
        env["CARGO_TARGET_DIR"] = os.path.join(d, "target")
        env["RUSTFLAGS"] = "-Awarnings"
        cmd = ["cargo"] + ([toolchain] if toolchain else []) + ["check", "--offline", "--quiet"] + (cargo_args or [])
        p = subprocess.run(cmd, cwd=d, env=env, stdout=subprocess.PIPE, stderr=subprocess.STDOUT, text=True)
        return p.returncode == 0, p.stdout
    finally:
        if not keep:
            shutil.rmtree(d, ignore_errors=True)


def export_crate(name, src, deps=None, repo=None, extra_files=None):
    """type-check a generated crate under mirdump and return its Program (caller cleans up)"""
    from . import model

    d = _mk(name, src, deps, "lib", repo, extra_files)
    try:
        prog = model.export_program(packages=[name], repo=d)
        return prog
    finally:
        shutil.rmtree(d, ignore_errors=True)
