use std::fmt::Debug;

pub trait SegtreeItem<M = ()>: Sized {
    fn merge(left: &Self, right: &Self) -> Self;

    fn update(&mut self, left: &Self, right: &Self) {
        *self = Self::merge(left, right);
    }

    fn modify(&mut self, _modifier: &M) {}

    fn push(&mut self, _left: &mut Self, _right: &mut Self) {}
}

pub struct Segtree<T, M> {
    n: usize,
    data: Vec<T>,
    phantom: std::marker::PhantomData<M>,
}

impl<M, T: SegtreeItem<M> + Clone> Segtree<T, M> {
    pub fn new_raw(n: usize, value: T) -> Self {
        assert!(n != 0);
        let mut p2: usize = 1;
        while p2 < n {
            p2 *= 2;
        }
        Self {
            n,
            data: vec![value; p2 * 2],
            phantom: std::marker::PhantomData,
        }
    }

    pub fn new(n: usize, value: T) -> Self {
        let mut res = Self::new_raw(n, value);
        res.rebuild_empty(0, 0, res.n - 1);
        res
    }

    pub fn from_slice(data: &[T]) -> Self {
        let mut res = Self::new_raw(data.len(), data[0].clone());
        res.rebuild(0, 0, res.n - 1, &mut data.iter().cloned());
        res
    }

    // this requires ExactSizeIterator unlike std::iter::FromIterator
    #[allow(clippy::should_implement_trait)]
    pub fn from_iter<I>(mut iter: I) -> Self
    where
        I: std::iter::Iterator<Item = T> + std::iter::ExactSizeIterator,
        T: Default,
    {
        let mut res = Self::new_raw(iter.len(), T::default());
        res.rebuild(0, 0, res.n - 1, &mut iter);
        res
    }

    fn rebuild(&mut self, i: usize, l: usize, r: usize, data: &mut impl std::iter::Iterator<Item = T>) {
        if l == r {
            self.data[i] = data.next().unwrap();
            return;
        }
        let m = (l + r) / 2;
        self.rebuild(i * 2 + 1, l, m, data);
        self.rebuild(i * 2 + 2, m + 1, r, data);

        self.merge_at(i);
    }

    fn rebuild_empty(&mut self, i: usize, l: usize, r: usize) {
        if l == r {
            return;
        }
        let m = (l + r) / 2;
        self.rebuild_empty(i * 2 + 1, l, m);
        self.rebuild_empty(i * 2 + 2, m + 1, r);

        let (left, right) = self.data.split_at_mut(i * 2 + 1);
        left[i].update(&right[0], &right[1]);
    }

    pub fn set(&mut self, ind: usize, value: T) {
        assert!(ind < self.n);
        self.set_internal(ind, value, 0, 0, self.n - 1);
    }

    fn set_internal(&mut self, ind: usize, value: T, i: usize, vl: usize, vr: usize) {
        if vl == vr {
            self.data[i] = value;
            return;
        }
        self.push_at(i);

        let m = (vl + vr) / 2;
        if ind <= m {
            self.set_internal(ind, value, i * 2 + 1, vl, m);
        } else {
            self.set_internal(ind, value, i * 2 + 2, m + 1, vr);
        }

        self.merge_at(i);
    }

    pub fn ask(&mut self, l: usize, r: usize) -> T {
        assert!(l <= r);
        assert!(r < self.n);
        self.ask_internal(l, r, 0, 0, self.n - 1)
    }

    fn ask_internal(&mut self, l: usize, r: usize, i: usize, vl: usize, vr: usize) -> T {
        if l == vl && r == vr {
            return self.data[i].clone();
        }
        self.push_at(i);

        let m = (vl + vr) / 2;
        if r <= m {
            self.ask_internal(l, r, i * 2 + 1, vl, m)
        } else if l > m {
            self.ask_internal(l, r, i * 2 + 2, m + 1, vr)
        } else {
            T::merge(
                &self.ask_internal(l, m, i * 2 + 1, vl, m),
                &self.ask_internal(m + 1, r, i * 2 + 2, m + 1, vr),
            )
        }
    }

    pub fn modify(&mut self, l: usize, r: usize, md: &M) {
        assert!(l <= r);
        assert!(r < self.n);
        self.modify_internal(l, r, md, 0, 0, self.n - 1)
    }

    fn modify_internal(&mut self, l: usize, r: usize, md: &M, i: usize, vl: usize, vr: usize) {
        if l == vl && r == vr {
            self.data[i].modify(md);
            return;
        }
        self.push_at(i);

        let m = (vl + vr) / 2;
        if r <= m {
            self.modify_internal(l, r, md, i * 2 + 1, vl, m);
        } else if l > m {
            self.modify_internal(l, r, md, i * 2 + 2, m + 1, vr);
        } else {
            self.modify_internal(l, m, md, i * 2 + 1, vl, m);
            self.modify_internal(m + 1, r, md, i * 2 + 2, m + 1, vr);
        }

        self.merge_at(i);
    }

    fn push_at(&mut self, i: usize) {
        let (left, right) = self.data.split_at_mut(i * 2 + 1);
        let (r1, r2) = right.split_at_mut(1);
        left[i].push(&mut r1[0], &mut r2[0]);
    }

    fn merge_at(&mut self, i: usize) {
        let (left, right) = self.data.split_at_mut(i * 2 + 1);
        left[i].update(&right[0], &right[1]);
    }
}

impl<M, T: SegtreeItem<M> + Clone + Default> Segtree<T, M> {
    /// Returns smallest r from `[l; n-1]` such that `f(ask(l, r)) == true`, or None if it's always false
    pub fn lower_bound<F>(&mut self, l: usize, f: F) -> Option<usize>
    where
        F: Fn(&T) -> bool,
    {
        self.lower_bound_internal(T::default(), &f, l, self.n - 1, 0, 0, self.n - 1)
            .1
    }

    #[allow(clippy::too_many_arguments)]
    fn lower_bound_internal<F>(
        &mut self,
        mut item: T,
        f: &F,
        l: usize,
        r: usize,
        i: usize,
        vl: usize,
        vr: usize,
    ) -> (T, Option<usize>)
    where
        F: Fn(&T) -> bool,
    {
        if l == vl && r == vr {
            let next = T::merge(&item, &self.data[i]);
            if !f(&next) {
                return (next, None);
            }
            if vl == vr {
                return (next, Some(vl));
            }
        }
        self.push_at(i);

        let m = (vl + vr) / 2;
        if l <= m {
            let (left_item, left_res) = self.lower_bound_internal(item, f, l, m, i * 2 + 1, vl, m);
            if left_res.is_some() {
                return (left_item, left_res);
            }
            item = left_item;
        }
        self.lower_bound_internal(item, f, l.max(m + 1), r, i * 2 + 2, m + 1, vr)
    }
    /// Returns largest l from `[0; r]` such that `f(ask(l, r)) == true`, or None if it's always false
    pub fn lower_bound_rev<F>(&mut self, r: usize, f: F) -> Option<usize>
    where
        F: Fn(&T) -> bool,
    {
        self.lower_bound_rev_internal(T::default(), &f, 0, r, 0, 0, self.n - 1)
            .1
    }

    #[allow(clippy::too_many_arguments)]
    fn lower_bound_rev_internal<F>(
        &mut self,
        mut item: T,
        f: &F,
        l: usize,
        r: usize,
        i: usize,
        vl: usize,
        vr: usize,
    ) -> (T, Option<usize>)
    where
        F: Fn(&T) -> bool,
    {
        if l == vl && r == vr {
            let next = T::merge(&self.data[i], &item);
            if !f(&next) {
                return (next, None);
            }
            if vl == vr {
                return (next, Some(vl));
            }
        }
        self.push_at(i);

        let m = (vl + vr) / 2;
        if r > m {
            let (right_item, right_res) = self.lower_bound_rev_internal(item, f, m + 1, r, i * 2 + 2, m + 1, vr);
            if right_res.is_some() {
                return (right_item, right_res);
            }
            item = right_item;
        }
        self.lower_bound_rev_internal(item, f, l, r.min(m), i * 2 + 1, vl, m)
    }
}

impl<T: Debug + Clone + SegtreeItem<M>, M: Debug> Segtree<T, M> {
    pub fn debug(&mut self) -> String {
        format!("{:?}", (0..self.n).map(|i| self.ask(i, i)).collect::<Vec<_>>())
    }
}
