use std::{
    fmt::Debug,
    ops::{Add, Div, Mul, Sub},
};

use rlib_show::{Show, ShowSettings};

#[derive(Copy, Clone, Default, PartialEq)]
pub struct Point {
    pub x: f64,
    pub y: f64,
}

impl From<Point> for (f64, f64) {
    fn from(value: Point) -> Self {
        (value.x, value.y)
    }
}

impl Debug for Point {
    fn fmt(&self, f: &mut std::fmt::Formatter<'_>) -> std::fmt::Result {
        write!(f, "({:?}, {:?})", self.x, self.y)
    }
}

impl Point {
    pub fn new(x: f64, y: f64) -> Self {
        Self { x, y }
    }

    pub fn slen(&self) -> f64 {
        self.x * self.x + self.y * self.y
    }

    pub fn len(&self) -> f64 {
        self.slen().sqrt()
    }

    pub fn dp(&self, p: &Point) -> f64 {
        self.x * p.x + self.y * p.y
    }

    pub fn cp(&self, p: &Point) -> f64 {
        self.x * p.y - self.y * p.x
    }
}

impl Show for Point {
    fn show(&self, settings: &ShowSettings) -> String {
        format!("({}, {})", self.x.show(settings), self.y.show(settings))
    }
}

macro_rules! impl_bin {
    ($trait:ident, $func:ident) => {
        impl $trait for Point {
            type Output = Point;

            fn $func(self, rhs: Self) -> Self::Output {
                Point::new(self.x.$func(rhs.x), self.y.$func(rhs.y))
            }
        }

        impl $trait<&Point> for Point {
            type Output = Point;

            fn $func(self, rhs: &Self) -> Self::Output {
                Point::new(self.x.$func(rhs.x), self.y.$func(rhs.y))
            }
        }

        impl $trait for &Point {
            type Output = Point;

            fn $func(self, rhs: Self) -> Self::Output {
                Point::new(self.x.$func(rhs.x), self.y.$func(rhs.y))
            }
        }

        impl $trait<Point> for &Point {
            type Output = Point;

            fn $func(self, rhs: Point) -> Self::Output {
                Point::new(self.x.$func(rhs.x), self.y.$func(rhs.y))
            }
        }
    };
}

impl_bin!(Add, add);
impl_bin!(Sub, sub);

impl Mul<f64> for Point {
    type Output = Point;

    fn mul(self, rhs: f64) -> Self::Output {
        Point::new(self.x * rhs, self.y * rhs)
    }
}

impl Div<f64> for Point {
    type Output = Point;

    fn div(self, rhs: f64) -> Self::Output {
        Point::new(self.x / rhs, self.y / rhs)
    }
}
