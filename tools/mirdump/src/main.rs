// mirdump — exporter E0 of /verif (see DESIGN.md §2.1).
//
// A rustc_private driver used as RUSTC_WORKSPACE_WRAPPER.  For every workspace crate it writes one
// JSON file ($MIRDUMP_OUT/<crate>.<kind>.json) holding the resolved, type-checked program as the
// real build sees it: MIR bodies (mir-opt-level=0) with resolved callees, constants, inline asm,
// plus ADTs, impls, statics, associated consts and the unsafe blocks of each body owner (from HIR).
// The exporter decides nothing; the Python engines under /verif/rlint do.
#![feature(rustc_private)]
#![allow(rustc::internal)]

extern crate rustc_abi;
extern crate rustc_ast;
extern crate rustc_driver;
extern crate rustc_hir;
extern crate rustc_interface;
extern crate rustc_middle;
extern crate rustc_session;
extern crate rustc_span;

use std::fmt::Write as _;

use rustc_driver::Compilation;
use rustc_hir::def::DefKind;
use rustc_hir::def_id::{DefId, LocalDefId, LOCAL_CRATE};
use rustc_hir::intravisit::{self, Visitor};
use rustc_middle::mir::{
    self, AggregateKind, AssertKind, BinOp, BorrowKind, CastKind, Const, ConstOperand, InlineAsmOperand, Operand,
    Place, ProjectionElem, Rvalue, StatementKind, TerminatorKind, UnwindAction, VarDebugInfoContents,
};
use rustc_middle::ty::print::with_no_trimmed_paths;
use rustc_middle::ty::{self, GenericArgsRef, Instance, Ty, TyCtxt, TypingEnv};
use rustc_span::Span;

// ---------------------------------------------------------------------------------------------
// minimal JSON value

enum J {
    Null,
    Bool(bool),
    Int(i128),
    Str(String),
    Arr(Vec<J>),
    Obj(Vec<(&'static str, J)>),
}

fn esc(s: &str, out: &mut String) {
    out.push('"');
    for c in s.chars() {
        match c {
            '"' => out.push_str("\\\""),
            '\\' => out.push_str("\\\\"),
            '\n' => out.push_str("\\n"),
            '\r' => out.push_str("\\r"),
            '\t' => out.push_str("\\t"),
            c if (c as u32) < 0x20 => {
                let _ = write!(out, "\\u{:04x}", c as u32);
            }
            c => out.push(c),
        }
    }
    out.push('"');
}

impl J {
    fn s(x: impl Into<String>) -> J {
        J::Str(x.into())
    }
    fn write(&self, out: &mut String) {
        match self {
            J::Null => out.push_str("null"),
            J::Bool(b) => out.push_str(if *b { "true" } else { "false" }),
            J::Int(i) => {
                let _ = write!(out, "{}", i);
            }
            J::Str(s) => esc(s, out),
            J::Arr(v) => {
                out.push('[');
                for (i, x) in v.iter().enumerate() {
                    if i > 0 {
                        out.push(',');
                    }
                    x.write(out);
                }
                out.push(']');
            }
            J::Obj(v) => {
                out.push('{');
                for (i, (k, x)) in v.iter().enumerate() {
                    if i > 0 {
                        out.push(',');
                    }
                    esc(k, out);
                    out.push(':');
                    x.write(out);
                }
                out.push('}');
            }
        }
    }
}

fn opt<T>(x: Option<T>, f: impl FnOnce(T) -> J) -> J {
    match x {
        Some(v) => f(v),
        None => J::Null,
    }
}

// ---------------------------------------------------------------------------------------------

struct Cx<'tcx> {
    tcx: TyCtxt<'tcx>,
}

impl<'tcx> Cx<'tcx> {
    /// crate-qualified, crate-independent key of a definition
    fn key(&self, did: DefId) -> String {
        let krate = self.tcx.crate_name(did.krate);
        format!("{}{}", krate, self.tcx.def_path(did).to_string_no_crate_verbose())
    }
    fn path(&self, did: DefId) -> String {
        with_no_trimmed_paths!(self.tcx.def_path_str(did))
    }
    fn ty(&self, t: Ty<'tcx>) -> J {
        J::Str(with_no_trimmed_paths!(format!("{}", t)))
    }
    fn args(&self, a: GenericArgsRef<'tcx>) -> J {
        J::Arr(a.iter().map(|g| J::Str(with_no_trimmed_paths!(format!("{}", g)))).collect())
    }
    fn span(&self, sp: Span) -> J {
        let sm = self.tcx.sess.source_map();
        let root = sp.source_callsite();
        let lo = sm.lookup_char_pos(root.lo());
        let hi = sm.lookup_char_pos(root.hi());
        let file = match &lo.file.name {
            rustc_span::FileName::Real(r) => match r.local_path() {
                Some(p) => p.to_string_lossy().into_owned(),
                None => format!("{:?}", r),
            },
            other => format!("{:?}", other),
        };
        let mut v = vec![
            ("file", J::Str(file)),
            ("line", J::Int(lo.line as i128)),
            ("col", J::Int(lo.col.0 as i128 + 1)),
            ("hi_line", J::Int(hi.line as i128)),
            ("exp", J::Bool(sp.from_expansion())),
        ];
        if sp.from_expansion() {
            let ed = sp.ctxt().outer_expn_data();
            v.push(("exp_kind", J::Str(format!("{:?}", ed.kind))));
            if let Some(mdid) = ed.macro_def_id {
                v.push(("macro_crate", J::Str(self.tcx.crate_name(mdid.krate).to_string())));
                v.push(("macro", J::Str(self.path(mdid))));
            }
        }
        J::Obj(v)
    }

    fn place(&self, p: &Place<'tcx>, body: &mir::Body<'tcx>) -> J {
        let mut proj = Vec::new();
        let mut ty = mir::PlaceTy::from_ty(body.local_decls[p.local].ty);
        for elem in p.projection.iter() {
            let e = match elem {
                ProjectionElem::Deref => J::Arr(vec![J::s("deref")]),
                ProjectionElem::Field(f, fty) => {
                    // field name when the base is an ADT
                    let name = match ty.ty.kind() {
                        ty::Adt(adt, _) => {
                            let vidx = ty.variant_index.unwrap_or(rustc_abi::FIRST_VARIANT);
                            adt.variants().get(vidx).and_then(|v| v.fields.get(f)).map(|fd| fd.name.to_string())
                        }
                        _ => None,
                    };
                    J::Arr(vec![J::s("field"), J::Int(f.index() as i128), opt(name, J::Str), self.ty(fty)])
                }
                ProjectionElem::Index(l) => J::Arr(vec![J::s("index"), J::Int(l.index() as i128)]),
                ProjectionElem::ConstantIndex { offset, min_length, from_end } => J::Arr(vec![
                    J::s("cidx"),
                    J::Int(offset as i128),
                    J::Int(min_length as i128),
                    J::Bool(from_end),
                ]),
                ProjectionElem::Subslice { from, to, from_end } => {
                    J::Arr(vec![J::s("subslice"), J::Int(from as i128), J::Int(to as i128), J::Bool(from_end)])
                }
                ProjectionElem::Downcast(name, v) => {
                    J::Arr(vec![J::s("downcast"), J::Int(v.index() as i128), opt(name, |n| J::Str(n.to_string())), self.ty(ty.ty)])
                }
                ProjectionElem::OpaqueCast(_) => J::Arr(vec![J::s("opaque")]),
                ProjectionElem::UnwrapUnsafeBinder(_) => J::Arr(vec![J::s("unwrap_binder")]),
            };
            proj.push(e);
            ty = ty.projection_ty(self.tcx, elem);
        }
        J::Obj(vec![("l", J::Int(p.local.index() as i128)), ("p", J::Arr(proj)), ("ty", self.ty(ty.ty))])
    }

    fn fn_ref(&self, did: DefId, args: GenericArgsRef<'tcx>, env: TypingEnv<'tcx>) -> J {
        let tcx = self.tcx;
        let mut v = vec![
            ("def", J::Str(self.key(did))),
            ("path", J::Str(self.path(did))),
            ("krate", J::Str(tcx.crate_name(did.krate).to_string())),
            ("local", J::Bool(did.is_local())),
            ("args", self.args(args)),
            ("name", J::Str(tcx.item_name(did).to_string())),
        ];
        // trait method?
        if let Some(assoc) = tcx.opt_associated_item(did) {
            match assoc.container {
                ty::AssocContainer::Trait => {
                    let tr = tcx.parent(did);
                    v.push(("trait", J::Str(self.path(tr))));
                    v.push(("trait_key", J::Str(self.key(tr))));
                    if !args.is_empty() {
                        if let Some(t) = args.get(0).and_then(|a| a.as_type()) {
                            v.push(("self_ty", self.ty(t)));
                        }
                    }
                }
                ty::AssocContainer::InherentImpl => {
                    let imp = tcx.parent(did);
                    v.push(("impl_key", J::Str(self.key(imp))));
                    let st = tcx.type_of(imp).instantiate_identity().skip_norm_wip();
                    v.push(("impl_self_ty", self.ty(st)));
                }
                ty::AssocContainer::TraitImpl(_) => {
                    let imp = tcx.parent(did);
                    v.push(("impl_key", J::Str(self.key(imp))));
                    if let Some(tr) = tcx.impl_opt_trait_ref(imp) {
                        let tr = tr.instantiate_identity().skip_norm_wip();
                        v.push(("trait", J::Str(self.path(tr.def_id))));
                        v.push(("self_ty", self.ty(tr.self_ty())));
                    }
                }
            }
        }
        // resolution
        let resolvable = matches!(tcx.def_kind(did), DefKind::Fn | DefKind::AssocFn | DefKind::Ctor(..));
        if resolvable {
            let r = std::panic::catch_unwind(std::panic::AssertUnwindSafe(|| Instance::try_resolve(tcx, env, did, args)));
            if let Ok(Ok(Some(inst))) = r {
                let rd = inst.def_id();
                let kind = match inst.def {
                    ty::InstanceKind::Item(_) => "item",
                    ty::InstanceKind::Intrinsic(_) => "intrinsic",
                    ty::InstanceKind::Virtual(..) => "virtual",
                    ty::InstanceKind::ClosureOnceShim { .. } => "closure_once_shim",
                    ty::InstanceKind::FnPtrShim(..) => "fn_ptr_shim",
                    ty::InstanceKind::DropGlue(..) => "drop_glue",
                    ty::InstanceKind::CloneShim(..) => "clone_shim",
                    ty::InstanceKind::ReifyShim(..) => "reify_shim",
                    ty::InstanceKind::VTableShim(..) => "vtable_shim",
                    _ => "other",
                };
                v.push((
                    "resolved",
                    J::Obj(vec![
                        ("def", J::Str(self.key(rd))),
                        ("path", J::Str(self.path(rd))),
                        ("krate", J::Str(tcx.crate_name(rd.krate).to_string())),
                        ("local", J::Bool(rd.is_local())),
                        ("kind", J::s(kind)),
                        ("args", self.args(inst.args)),
                        ("is_closure", J::Bool(tcx.is_closure_like(rd))),
                    ]),
                ));
            }
        }
        J::Obj(v)
    }

    fn constant(&self, c: &ConstOperand<'tcx>, env: TypingEnv<'tcx>) -> J {
        let tcx = self.tcx;
        let ty = c.const_.ty();
        let mut v = vec![("k", J::s("const")), ("ty", self.ty(ty))];
        v.push(("text", J::Str(with_no_trimmed_paths!(format!("{}", c.const_)))));
        if let ty::FnDef(did, args) = ty.kind() {
            v.push(("fn", self.fn_ref(*did, args, env)));
            return J::Obj(v);
        }
        match c.const_ {
            Const::Ty(_, tc) => {
                if let ty::ConstKind::Param(p) = tc.kind() {
                    v.push(("param", J::Str(p.name.to_string())));
                }
            }
            Const::Unevaluated(u, _) => {
                let mut uv = vec![
                    ("def", J::Str(self.key(u.def))),
                    ("path", J::Str(self.path(u.def))),
                    ("args", self.args(u.args)),
                    ("kind", J::Str(format!("{:?}", tcx.def_kind(u.def)))),
                ];
                if let Some(p) = u.promoted {
                    uv.push(("promoted", J::Int(p.index() as i128)));
                }
                if let Some(assoc) = tcx.opt_associated_item(u.def) {
                    uv.push(("assoc_name", J::Str(assoc.name().to_string())));
                    if let ty::AssocContainer::Trait = assoc.container {
                        uv.push(("trait", J::Str(self.path(tcx.parent(u.def)))));
                    }
                }
                v.push(("uneval", J::Obj(uv)));
            }
            Const::Val(..) => {}
        }
        // scalar value when evaluable (ints, bool, char, floats as bits)
        let scalar_ok = ty.is_integral() || ty.is_bool() || ty.is_char() || ty.is_floating_point();
        if scalar_ok {
            let r = std::panic::catch_unwind(std::panic::AssertUnwindSafe(|| c.const_.try_eval_scalar_int(tcx, env)));
            if let Ok(Some(si)) = r {
                let size = si.size();
                let bits = si.to_bits(size);
                let val: i128 = if ty.is_signed() { size.sign_extend(bits) } else { bits as i128 };
                // u128 values above i128::MAX are printed as strings
                if !ty.is_signed() && bits > i128::MAX as u128 {
                    v.push(("val", J::Str(format!("{}", bits))));
                } else {
                    v.push(("val", J::Int(val)));
                }
                v.push(("bits", J::Int(size.bits() as i128)));
            }
        }
        // `&<int>` constants (promoteds such as `&0`): the pointee value
        if let ty::Ref(_, inner, _) = ty.kind() {
            if inner.is_integral() || inner.is_bool() || inner.is_char() {
                let r = std::panic::catch_unwind(std::panic::AssertUnwindSafe(|| {
                    c.const_.eval(tcx, env, rustc_span::DUMMY_SP)
                }));
                if let Ok(Ok(mir::ConstValue::Scalar(rustc_middle::mir::interpret::Scalar::Ptr(ptr, _)))) = r {
                    let (prov, off) = ptr.into_raw_parts();
                    if let Some(rustc_middle::mir::interpret::GlobalAlloc::Memory(m)) =
                        tcx.try_get_global_alloc(prov.alloc_id())
                    {
                        let a = m.inner();
                        if let Ok(layout) = tcx.layout_of(env.as_query_input(*inner)) {
                            let sz = layout.size.bytes_usize();
                            let o = off.bytes_usize();
                            if o + sz <= a.len() && sz <= 16 {
                                let bytes = a.inspect_with_uninit_and_ptr_outside_interpreter(o..o + sz);
                                let mut u: u128 = 0;
                                for (i, b) in bytes.iter().enumerate() {
                                    u |= (*b as u128) << (8 * i);
                                }
                                let iv: i128 = if inner.is_signed() {
                                    rustc_abi::Size::from_bytes(sz as u64).sign_extend(u)
                                } else {
                                    u as i128
                                };
                                v.push(("deref_val", J::Int(iv)));
                            }
                        }
                    }
                }
            }
        }
        // statics referenced through pointers
        if let Some(did) = c.check_static_ptr(tcx) {
            v.push(("static", J::Str(self.key(did))));
        }
        J::Obj(v)
    }

    fn operand(&self, o: &Operand<'tcx>, body: &mir::Body<'tcx>, env: TypingEnv<'tcx>) -> J {
        match o {
            Operand::Copy(p) => J::Obj(vec![("k", J::s("copy")), ("place", self.place(p, body))]),
            Operand::Move(p) => J::Obj(vec![("k", J::s("move")), ("place", self.place(p, body))]),
            Operand::Constant(c) => self.constant(c, env),
            #[allow(unreachable_patterns)]
            _ => J::Obj(vec![("k", J::s("other")), ("text", J::Str(format!("{:?}", o)))]),
        }
    }

    fn binop(&self, op: BinOp) -> &'static str {
        match op {
            BinOp::Add => "Add",
            BinOp::AddUnchecked => "AddUnchecked",
            BinOp::AddWithOverflow => "AddWithOverflow",
            BinOp::Sub => "Sub",
            BinOp::SubUnchecked => "SubUnchecked",
            BinOp::SubWithOverflow => "SubWithOverflow",
            BinOp::Mul => "Mul",
            BinOp::MulUnchecked => "MulUnchecked",
            BinOp::MulWithOverflow => "MulWithOverflow",
            BinOp::Div => "Div",
            BinOp::Rem => "Rem",
            BinOp::BitXor => "BitXor",
            BinOp::BitAnd => "BitAnd",
            BinOp::BitOr => "BitOr",
            BinOp::Shl => "Shl",
            BinOp::ShlUnchecked => "ShlUnchecked",
            BinOp::Shr => "Shr",
            BinOp::ShrUnchecked => "ShrUnchecked",
            BinOp::Eq => "Eq",
            BinOp::Lt => "Lt",
            BinOp::Le => "Le",
            BinOp::Ne => "Ne",
            BinOp::Ge => "Ge",
            BinOp::Gt => "Gt",
            BinOp::Cmp => "Cmp",
            BinOp::Offset => "Offset",
        }
    }

    fn rvalue(&self, rv: &Rvalue<'tcx>, body: &mir::Body<'tcx>, env: TypingEnv<'tcx>) -> J {
        let tcx = self.tcx;
        match rv {
            Rvalue::Use(o, ..) => J::Obj(vec![("k", J::s("use")), ("op", self.operand(o, body, env))]),
            Rvalue::Repeat(o, n) => J::Obj(vec![
                ("k", J::s("repeat")),
                ("op", self.operand(o, body, env)),
                ("n", J::Str(with_no_trimmed_paths!(format!("{}", n)))),
            ]),
            Rvalue::Ref(_, bk, p) => {
                let b = match bk {
                    BorrowKind::Shared => "shared",
                    BorrowKind::Fake(_) => "fake",
                    BorrowKind::Mut { .. } => "mut",
                };
                J::Obj(vec![("k", J::s("ref")), ("bk", J::s(b)), ("place", self.place(p, body))])
            }
            Rvalue::ThreadLocalRef(did) => J::Obj(vec![("k", J::s("tlref")), ("def", J::Str(self.key(*did)))]),
            Rvalue::RawPtr(kind, p) => J::Obj(vec![
                ("k", J::s("rawptr")),
                ("kind", J::Str(format!("{:?}", kind))),
                ("place", self.place(p, body)),
            ]),
            Rvalue::Cast(ck, o, t) => {
                let k = match ck {
                    CastKind::IntToInt => "IntToInt".to_string(),
                    CastKind::FloatToInt => "FloatToInt".to_string(),
                    CastKind::FloatToFloat => "FloatToFloat".to_string(),
                    CastKind::IntToFloat => "IntToFloat".to_string(),
                    CastKind::PtrToPtr => "PtrToPtr".to_string(),
                    CastKind::FnPtrToPtr => "FnPtrToPtr".to_string(),
                    CastKind::Transmute => "Transmute".to_string(),
                    other => format!("{:?}", other),
                };
                J::Obj(vec![
                    ("k", J::s("cast")),
                    ("ck", J::Str(k)),
                    ("op", self.operand(o, body, env)),
                    ("from", self.ty(o.ty(body, tcx))),
                    ("ty", self.ty(*t)),
                ])
            }
            Rvalue::BinaryOp(op, ab) => J::Obj(vec![
                ("k", J::s("bin")),
                ("op", J::s(self.binop(*op))),
                ("a", self.operand(&ab.0, body, env)),
                ("b", self.operand(&ab.1, body, env)),
                ("opty", self.ty(ab.0.ty(body, tcx))),
            ]),
            Rvalue::UnaryOp(op, a) => J::Obj(vec![
                ("k", J::s("un")),
                ("op", J::Str(format!("{:?}", op))),
                ("a", self.operand(a, body, env)),
                ("opty", self.ty(a.ty(body, tcx))),
            ]),
            Rvalue::Discriminant(p) => {
                let mut v = vec![("k", J::s("discr")), ("place", self.place(p, body))];
                let pty = p.ty(body, tcx).ty;
                if let ty::Adt(adt, _) = pty.kind() {
                    if adt.is_enum() && adt.variants().len() <= 80 {
                        let mut names = Vec::new();
                        for (vidx, d) in adt.discriminants(tcx) {
                            names.push(J::Arr(vec![
                                J::Str(format!("{}", d.val)),
                                J::Str(adt.variant(vidx).name.to_string()),
                            ]));
                        }
                        v.push(("adt", J::Str(self.path(adt.did()))));
                        v.push(("variants", J::Arr(names)));
                    }
                }
                J::Obj(v)
            }
            Rvalue::Aggregate(kind, ops) => {
                let ak = match &**kind {
                    AggregateKind::Array(t) => J::Obj(vec![("k", J::s("array")), ("elem", self.ty(*t))]),
                    AggregateKind::Tuple => J::Obj(vec![("k", J::s("tuple"))]),
                    AggregateKind::Adt(did, vidx, args, _, active) => {
                        let adt = tcx.adt_def(*did);
                        let var = adt.variant(*vidx);
                        J::Obj(vec![
                            ("k", J::s("adt")),
                            ("def", J::Str(self.key(*did))),
                            ("path", J::Str(self.path(*did))),
                            ("variant", J::Int(vidx.index() as i128)),
                            ("variant_name", J::Str(var.name.to_string())),
                            ("fields", J::Arr(var.fields.iter().map(|f| J::Str(f.name.to_string())).collect())),
                            ("args", self.args(args)),
                            ("union_field", opt(*active, |f| J::Int(f.index() as i128))),
                        ])
                    }
                    AggregateKind::Closure(did, args) => J::Obj(vec![
                        ("k", J::s("closure")),
                        ("def", J::Str(self.key(*did))),
                        ("args", self.args(args)),
                    ]),
                    AggregateKind::RawPtr(t, _) => J::Obj(vec![("k", J::s("rawptr")), ("ty", self.ty(*t))]),
                    other => J::Obj(vec![("k", J::s("other")), ("text", J::Str(format!("{:?}", other)))]),
                };
                J::Obj(vec![
                    ("k", J::s("agg")),
                    ("ak", ak),
                    ("ops", J::Arr(ops.iter().map(|o| self.operand(o, body, env)).collect())),
                ])
            }
            Rvalue::CopyForDeref(p) => J::Obj(vec![("k", J::s("copy_for_deref")), ("place", self.place(p, body))]),
            other => J::Obj(vec![("k", J::s("other")), ("text", J::Str(format!("{:?}", other)))]),
        }
    }

    fn unwind(&self, u: &UnwindAction) -> J {
        match u {
            UnwindAction::Cleanup(bb) => J::Int(bb.index() as i128),
            _ => J::Null,
        }
    }

    fn terminator(&self, t: &mir::Terminator<'tcx>, body: &mir::Body<'tcx>, env: TypingEnv<'tcx>) -> J {
        let tcx = self.tcx;
        let sp = ("span", self.span(t.source_info.span));
        match &t.kind {
            TerminatorKind::Goto { target } => J::Obj(vec![("k", J::s("goto")), ("t", J::Int(target.index() as i128))]),
            TerminatorKind::SwitchInt { discr, targets } => {
                let mut vals = Vec::new();
                let mut tg = Vec::new();
                for (v, bb) in targets.iter() {
                    vals.push(if v > i128::MAX as u128 { J::Str(format!("{}", v)) } else { J::Int(v as i128) });
                    tg.push(J::Int(bb.index() as i128));
                }
                J::Obj(vec![
                    ("k", J::s("switch")),
                    ("op", self.operand(discr, body, env)),
                    ("opty", self.ty(discr.ty(body, tcx))),
                    ("vals", J::Arr(vals)),
                    ("targets", J::Arr(tg)),
                    ("otherwise", J::Int(targets.otherwise().index() as i128)),
                    sp,
                ])
            }
            TerminatorKind::UnwindResume => J::Obj(vec![("k", J::s("resume"))]),
            TerminatorKind::UnwindTerminate(_) => J::Obj(vec![("k", J::s("terminate"))]),
            TerminatorKind::Return => J::Obj(vec![("k", J::s("return")), sp]),
            TerminatorKind::Unreachable => J::Obj(vec![("k", J::s("unreachable"))]),
            TerminatorKind::Drop { place, target, unwind, .. } => J::Obj(vec![
                ("k", J::s("drop")),
                ("place", self.place(place, body)),
                ("target", J::Int(target.index() as i128)),
                ("unwind", self.unwind(unwind)),
            ]),
            TerminatorKind::Call { func, args, destination, target, unwind, fn_span, .. } => {
                let f = match func {
                    Operand::Constant(c) => match c.const_.ty().kind() {
                        ty::FnDef(did, a) => self.fn_ref(*did, a, env),
                        _ => J::Obj(vec![("indirect", self.operand(func, body, env))]),
                    },
                    _ => J::Obj(vec![("indirect", self.operand(func, body, env)), ("fnty", self.ty(func.ty(body, tcx)))]),
                };
                J::Obj(vec![
                    ("k", J::s("call")),
                    ("fn", f),
                    ("args", J::Arr(args.iter().map(|a| self.operand(&a.node, body, env)).collect())),
                    ("dest", self.place(destination, body)),
                    ("target", opt(*target, |b| J::Int(b.index() as i128))),
                    ("unwind", self.unwind(unwind)),
                    ("fn_span", self.span(*fn_span)),
                    sp,
                ])
            }
            TerminatorKind::Assert { cond, expected, msg, target, unwind } => {
                let m = match &**msg {
                    AssertKind::BoundsCheck { len, index } => J::Obj(vec![
                        ("k", J::s("bounds")),
                        ("len", self.operand(len, body, env)),
                        ("index", self.operand(index, body, env)),
                    ]),
                    AssertKind::Overflow(op, a, b) => J::Obj(vec![
                        ("k", J::s("overflow")),
                        ("op", J::s(self.binop(*op))),
                        ("a", self.operand(a, body, env)),
                        ("b", self.operand(b, body, env)),
                    ]),
                    AssertKind::OverflowNeg(a) => J::Obj(vec![("k", J::s("overflow_neg")), ("a", self.operand(a, body, env))]),
                    AssertKind::DivisionByZero(a) => J::Obj(vec![("k", J::s("div_zero")), ("a", self.operand(a, body, env))]),
                    AssertKind::RemainderByZero(a) => J::Obj(vec![("k", J::s("rem_zero")), ("a", self.operand(a, body, env))]),
                    other => J::Obj(vec![("k", J::s("other")), ("text", J::Str(format!("{:?}", other)))]),
                };
                J::Obj(vec![
                    ("k", J::s("assert")),
                    ("cond", self.operand(cond, body, env)),
                    ("expected", J::Bool(*expected)),
                    ("msg", m),
                    ("target", J::Int(target.index() as i128)),
                    ("unwind", self.unwind(unwind)),
                    sp,
                ])
            }
            TerminatorKind::FalseEdge { real_target, .. } => {
                J::Obj(vec![("k", J::s("goto")), ("t", J::Int(real_target.index() as i128))])
            }
            TerminatorKind::FalseUnwind { real_target, .. } => {
                J::Obj(vec![("k", J::s("goto")), ("t", J::Int(real_target.index() as i128))])
            }
            TerminatorKind::InlineAsm { template, operands, options, targets, unwind, .. } => {
                let tpl = template
                    .iter()
                    .map(|p| match p {
                        rustc_ast::InlineAsmTemplatePiece::String(s) => J::Str(s.to_string()),
                        rustc_ast::InlineAsmTemplatePiece::Placeholder { operand_idx, modifier, .. } => J::Obj(vec![
                            ("operand", J::Int(*operand_idx as i128)),
                            ("modifier", opt(*modifier, |c| J::Str(c.to_string()))),
                        ]),
                    })
                    .collect();
                let ops = operands
                    .iter()
                    .map(|o| match o {
                        InlineAsmOperand::In { reg, value } => J::Obj(vec![
                            ("k", J::s("in")),
                            ("reg", J::Str(format!("{}", reg))),
                            ("op", self.operand(value, body, env)),
                            ("ty", self.ty(value.ty(body, tcx))),
                        ]),
                        InlineAsmOperand::Out { reg, late, place } => J::Obj(vec![
                            ("k", J::s("out")),
                            ("reg", J::Str(format!("{}", reg))),
                            ("late", J::Bool(*late)),
                            ("place", opt(place.as_ref(), |p| self.place(p, body))),
                        ]),
                        InlineAsmOperand::InOut { reg, late, in_value, out_place } => J::Obj(vec![
                            ("k", J::s("inout")),
                            ("reg", J::Str(format!("{}", reg))),
                            ("late", J::Bool(*late)),
                            ("op", self.operand(in_value, body, env)),
                            ("place", opt(out_place.as_ref(), |p| self.place(p, body))),
                        ]),
                        other => J::Obj(vec![("k", J::s("other")), ("text", J::Str(format!("{:?}", other)))]),
                    })
                    .collect();
                J::Obj(vec![
                    ("k", J::s("asm")),
                    ("template", J::Arr(tpl)),
                    ("operands", J::Arr(ops)),
                    ("options", J::Str(format!("{:?}", options))),
                    ("targets", J::Arr(targets.iter().map(|b| J::Int(b.index() as i128)).collect())),
                    ("unwind", self.unwind(unwind)),
                    sp,
                ])
            }
            other => J::Obj(vec![("k", J::s("other")), ("text", J::Str(format!("{:?}", other))), sp]),
        }
    }

    fn body(&self, ldid: LocalDefId) -> Option<J> {
        let tcx = self.tcx;
        let did = ldid.to_def_id();
        let kind = tcx.def_kind(did);
        let is_const = matches!(kind, DefKind::AssocConst { .. } | DefKind::Const { .. });
        if !matches!(kind, DefKind::Fn | DefKind::AssocFn | DefKind::Closure) && !is_const {
            return None;
        }
        if !is_const && !tcx.is_mir_available(did) {
            return None;
        }
        let body = if is_const { tcx.mir_for_ctfe(did) } else { tcx.optimized_mir(did) };
        let env = TypingEnv::post_analysis(tcx, did);
        let mut v: Vec<(&'static str, J)> = vec![
            ("key", J::Str(self.key(did))),
            ("path", J::Str(self.path(did))),
            ("name", J::Str(if kind == DefKind::Closure { "{closure}".to_string() } else { tcx.item_name(did).to_string() })),
            ("kind", J::Str(format!("{:?}", kind))),
            ("span", self.span(tcx.def_span(did))),
            ("body_span", self.span(body.span)),
            ("arg_count", J::Int(body.arg_count as i128)),
        ];
        if kind == DefKind::Closure {
            v.push(("parent", J::Str(self.key(tcx.typeck_root_def_id(did)))));
            v.push(("direct_parent", J::Str(self.key(tcx.parent(did)))));
        } else if is_const {
            v.push(("vis", J::s(if tcx.visibility(did).is_public() { "pub" } else { "restricted" })));
            v.push(("unsafe", J::Bool(false)));
            if tcx.opt_associated_item(did).is_some() {
                v.push(("container", J::Str(self.key(tcx.parent(did)))));
            }
        } else {
            let vis = tcx.visibility(did);
            v.push(("vis", J::s(if vis.is_public() { "pub" } else { "restricted" })));
            let sig = tcx.fn_sig(did).instantiate_identity().skip_norm_wip();
            v.push(("unsafe", J::Bool(!sig.safety().is_safe())));
            v.push(("sig", J::Str(with_no_trimmed_paths!(format!("{}", sig)))));
            if let Some(assoc) = tcx.opt_associated_item(did) {
                let parent = tcx.parent(did);
                v.push(("container", J::Str(self.key(parent))));
                v.push((
                    "container_kind",
                    J::s(match assoc.container {
                        ty::AssocContainer::Trait => "trait",
                        ty::AssocContainer::InherentImpl => "inherent",
                        ty::AssocContainer::TraitImpl(_) => "trait_impl",
                    }),
                ));
            }
        }
        // generics
        let gens = tcx.generics_of(did);
        let mut gnames = Vec::new();
        let mut g = Some(gens);
        while let Some(gg) = g {
            for p in gg.own_params.iter().rev() {
                gnames.push(J::Str(p.name.to_string()));
            }
            g = gg.parent.map(|p| tcx.generics_of(p));
        }
        gnames.reverse();
        v.push(("generics", J::Arr(gnames)));
        // attributes we care about: lint-level attributes on the item
        // locals
        let locals = body
            .local_decls
            .iter()
            .map(|d| {
                J::Obj(vec![
                    ("ty", self.ty(d.ty)),
                    ("mut", J::Bool(d.mutability.is_mut())),
                ])
            })
            .collect();
        v.push(("locals", J::Arr(locals)));
        let dbg = body
            .var_debug_info
            .iter()
            .map(|d| {
                let val = match &d.value {
                    VarDebugInfoContents::Place(p) => self.place(p, body),
                    VarDebugInfoContents::Const(c) => self.constant(c, env),
                };
                J::Obj(vec![
                    ("name", J::Str(d.name.to_string())),
                    ("value", val),
                    ("arg", opt(d.argument_index, |i| J::Int(i as i128))),
                ])
            })
            .collect();
        v.push(("debug", J::Arr(dbg)));
        // blocks
        let mut blocks = Vec::new();
        for (_bb, data) in body.basic_blocks.iter_enumerated() {
            let mut stmts = Vec::new();
            for st in data.statements.iter() {
                let line = tcx.sess.source_map().lookup_char_pos(st.source_info.span.source_callsite().lo()).line;
                let exp = st.source_info.span.from_expansion();
                match &st.kind {
                    StatementKind::Assign(b) => {
                        let (p, rv) = &**b;
                        stmts.push(J::Obj(vec![
                            ("k", J::s("assign")),
                            ("place", self.place(p, body)),
                            ("rv", self.rvalue(rv, body, env)),
                            ("line", J::Int(line as i128)),
                            ("exp", J::Bool(exp)),
                        ]));
                    }
                    StatementKind::SetDiscriminant { place, variant_index } => {
                        stmts.push(J::Obj(vec![
                            ("k", J::s("set_discr")),
                            ("place", self.place(place, body)),
                            ("variant", J::Int(variant_index.index() as i128)),
                            ("line", J::Int(line as i128)),
                        ]));
                    }
                    StatementKind::Intrinsic(i) => {
                        stmts.push(J::Obj(vec![("k", J::s("intrinsic")), ("text", J::Str(format!("{:?}", i)))]));
                    }
                    _ => {}
                }
            }
            let term = self.terminator(data.terminator(), body, env);
            blocks.push(J::Obj(vec![("cleanup", J::Bool(data.is_cleanup)), ("stmts", J::Arr(stmts)), ("term", term)]));
        }
        v.push(("blocks", J::Arr(blocks)));
        // promoted constants of this body, as text (e.g. `&ErrorKind::Interrupted`)
        if !is_const {
            let prom = tcx.promoted_mir(did);
            let mut pv = Vec::new();
            for pb in prom.iter() {
                let mut txt = String::new();
                for data in pb.basic_blocks.iter() {
                    for st in data.statements.iter() {
                        if let StatementKind::Assign(..) = st.kind {
                            let _ = write!(txt, "{:?}; ", st);
                        }
                    }
                }
                pv.push(J::Str(with_no_trimmed_paths!(txt)));
            }
            v.push(("promoted", J::Arr(pv)));
        }
        // unsafe blocks and lint attrs from HIR (closures are covered by their parent's walk)
        if kind != DefKind::Closure {
            let mut uv = UnsafeFinder { cx: self, found: Vec::new() };
            let hbody = tcx.hir_body_owned_by(ldid);
            uv.visit_body(hbody);
            v.push(("unsafe_blocks", J::Arr(uv.found)));
            let hir_id = tcx.local_def_id_to_hir_id(ldid);
            let mut attrs = Vec::new();
            for a in tcx.hir_attrs(hir_id) {
                attrs.push(J::Str(format!("{:?}", a).chars().take(400).collect::<String>()));
            }
            v.push(("attrs", J::Arr(attrs)));
        }
        Some(J::Obj(v))
    }

    fn adts_impls(&self, out: &mut Vec<(&'static str, J)>) {
        let tcx = self.tcx;
        let mut adts = Vec::new();
        let mut impls = Vec::new();
        let mut statics = Vec::new();
        let mut consts = Vec::new();
        let mut traits = Vec::new();
        let mut macros = Vec::new();
        let mut aliases = Vec::new();
        for ldid in tcx.hir_crate_items(()).definitions() {
            let did = ldid.to_def_id();
            match tcx.def_kind(did) {
                DefKind::Struct | DefKind::Enum | DefKind::Union => {
                    let adt = tcx.adt_def(did);
                    let variants = adt
                        .variants()
                        .iter()
                        .map(|var| {
                            J::Obj(vec![
                                ("name", J::Str(var.name.to_string())),
                                (
                                    "fields",
                                    J::Arr(
                                        var.fields
                                            .iter()
                                            .map(|f| {
                                                J::Obj(vec![
                                                    ("name", J::Str(f.name.to_string())),
                                                    ("ty", self.ty(tcx.type_of(f.did).instantiate_identity().skip_norm_wip())),
                                                    ("pub", J::Bool(f.vis.is_public())),
                                                ])
                                            })
                                            .collect(),
                                    ),
                                ),
                            ])
                        })
                        .collect();
                    adts.push(J::Obj(vec![
                        ("key", J::Str(self.key(did))),
                        ("path", J::Str(self.path(did))),
                        ("kind", J::Str(format!("{:?}", tcx.def_kind(did)))),
                        ("pub", J::Bool(tcx.visibility(did).is_public())),
                        ("repr", J::Str(format!("{:?}", adt.repr()))),
                        ("variants", J::Arr(variants)),
                        ("span", self.span(tcx.def_span(did))),
                    ]));
                }
                DefKind::Impl { of_trait } => {
                    let self_ty = tcx.type_of(did).instantiate_identity().skip_norm_wip();
                    let mut iv = vec![
                        ("key", J::Str(self.key(did))),
                        ("self_ty", self.ty(self_ty)),
                        ("of_trait", J::Bool(of_trait)),
                        ("derived", J::Bool(tcx.is_automatically_derived(did))),
                        ("span", self.span(tcx.def_span(did))),
                    ];
                    if let ty::Adt(a, _) = self_ty.kind() {
                        iv.push(("self_adt", J::Str(self.key(a.did()))));
                    }
                    if of_trait {
                        let tr = tcx.impl_trait_ref(did).instantiate_identity().skip_norm_wip();
                        iv.push(("trait", J::Str(self.path(tr.def_id))));
                        iv.push(("trait_key", J::Str(self.key(tr.def_id))));
                        iv.push(("trait_ref", J::Str(with_no_trimmed_paths!(format!("{}", tr)))));
                        iv.push(("trait_args", self.args(tr.args)));
                        iv.push(("unsafe", J::Bool(tcx.impl_trait_header(did).safety.is_unsafe())));
                    }
                    let items = tcx
                        .associated_items(did)
                        .in_definition_order()
                        .map(|a| {
                            J::Obj(vec![
                                ("name", J::Str(a.name().to_string())),
                                ("key", J::Str(self.key(a.def_id))),
                                ("kind", J::Str(format!("{:?}", a.kind).chars().take(40).collect::<String>())),
                            ])
                        })
                        .collect();
                    iv.push(("items", J::Arr(items)));
                    impls.push(J::Obj(iv));
                }
                DefKind::Static { mutability, .. } => {
                    let t = tcx.type_of(did).instantiate_identity().skip_norm_wip();
                    statics.push(J::Obj(vec![
                        ("key", J::Str(self.key(did))),
                        ("path", J::Str(self.path(did))),
                        ("mut", J::Bool(mutability.is_mut())),
                        ("thread_local", J::Bool(tcx.is_thread_local_static(did))),
                        ("freeze", J::Bool(t.is_freeze(tcx, ty::TypingEnv::post_analysis(tcx, did)))),
                        ("ty", self.ty(t)),
                        ("span", self.span(tcx.def_span(did))),
                    ]));
                }
                DefKind::AssocConst { .. } | DefKind::Const { .. } => {
                    let t = tcx.type_of(did).instantiate_identity().skip_norm_wip();
                    let mut cv = vec![
                        ("key", J::Str(self.key(did))),
                        ("path", J::Str(self.path(did))),
                        ("name", J::Str(tcx.item_name(did).to_string())),
                        ("ty", self.ty(t)),
                        ("parent", J::Str(self.key(tcx.parent(did)))),
                        ("span", self.span(tcx.def_span(did))),
                    ];
                    // evaluate when not generic
                    let gens = tcx.generics_of(did);
                    let has_value = match tcx.opt_associated_item(did) {
                        Some(a) => a.defaultness(tcx).has_value(),
                        None => true,
                    };
                    if !gens.requires_monomorphization(tcx) && has_value {
                        let r = std::panic::catch_unwind(std::panic::AssertUnwindSafe(|| tcx.const_eval_poly(did)));
                        if let Ok(Ok(val)) = r {
                            if let Some(si) = val.try_to_scalar_int() {
                                let size = si.size();
                                let bits = si.to_bits(size);
                                let iv: i128 = if t.is_signed() { size.sign_extend(bits) } else { bits as i128 };
                                if !t.is_signed() && bits > i128::MAX as u128 {
                                    cv.push(("val", J::Str(format!("{}", bits))));
                                } else {
                                    cv.push(("val", J::Int(iv)));
                                }
                            } else {
                                // byte arrays etc: print through the MIR pretty printer
                                // (the pretty printer can panic on values whose type it cannot lift, e.g. through some
                                // aliases; the text is auxiliary, the raw bytes below are what the rules read)
                                let c = Const::Val(val, t);
                                let prev_hook = std::panic::take_hook();
                                std::panic::set_hook(Box::new(|_| {}));
                                let txt = std::panic::catch_unwind(std::panic::AssertUnwindSafe(|| with_no_trimmed_paths!(format!("{}", c))));
                                std::panic::set_hook(prev_hook);
                                if let Ok(txt) = txt {
                                    cv.push(("text", J::Str(txt)));
                                }
                                // raw bytes for small by-ref constants
                                if let mir::ConstValue::Indirect { alloc_id, offset } = val {
                                    if let Some(alloc) = tcx.try_get_global_alloc(alloc_id) {
                                        if let rustc_middle::mir::interpret::GlobalAlloc::Memory(m) = alloc {
                                            let a = m.inner();
                                            let len = a.len();
                                            let off = offset.bytes_usize();
                                            if len <= 256 && off <= len && a.provenance().ptrs().is_empty() {
                                                let bytes = a.inspect_with_uninit_and_ptr_outside_interpreter(off..len);
                                                cv.push((
                                                    "bytes",
                                                    J::Arr(bytes.iter().map(|b| J::Int(*b as i128)).collect()),
                                                ));
                                            }
                                        }
                                    }
                                }
                            }
                        }
                    }
                    consts.push(J::Obj(cv));
                }
                DefKind::Trait => {
                    let items = tcx
                        .associated_items(did)
                        .in_definition_order()
                        .map(|a| {
                            J::Obj(vec![
                                ("name", J::Str(a.name().to_string())),
                                ("key", J::Str(self.key(a.def_id))),
                                ("has_default", J::Bool(a.defaultness(tcx).has_value())),
                            ])
                        })
                        .collect();
                    traits.push(J::Obj(vec![
                        ("key", J::Str(self.key(did))),
                        ("path", J::Str(self.path(did))),
                        ("items", J::Arr(items)),
                    ]));
                }
                DefKind::TyAlias => {
                    let t = tcx.type_of(did).instantiate_identity().skip_norm_wip();
                    aliases.push(J::Obj(vec![
                        ("key", J::Str(self.key(did))),
                        ("name", J::Str(tcx.item_name(did).to_string())),
                        ("ty", self.ty(t)),
                        ("vis", J::Str(if tcx.visibility(did).is_public() { "pub".to_string() } else { "restricted".to_string() })),
                        ("span", self.span(tcx.def_span(did))),
                    ]));
                }
                DefKind::Macro(_) => {
                    macros.push(J::Obj(vec![
                        ("key", J::Str(self.key(did))),
                        ("name", J::Str(tcx.item_name(did).to_string())),
                        ("span", self.span(tcx.def_span(did))),
                    ]));
                }
                _ => {}
            }
        }
        out.push(("adts", J::Arr(adts)));
        out.push(("impls", J::Arr(impls)));
        out.push(("statics", J::Arr(statics)));
        out.push(("consts", J::Arr(consts)));
        out.push(("traits", J::Arr(traits)));
        out.push(("macros", J::Arr(macros)));
        out.push(("aliases", J::Arr(aliases)));
    }
}

struct UnsafeFinder<'a, 'tcx> {
    cx: &'a Cx<'tcx>,
    found: Vec<J>,
}

impl<'a, 'tcx> Visitor<'tcx> for UnsafeFinder<'a, 'tcx> {
    type NestedFilter = rustc_middle::hir::nested_filter::OnlyBodies;
    fn maybe_tcx(&mut self) -> TyCtxt<'tcx> {
        self.cx.tcx
    }
    fn visit_block(&mut self, b: &'tcx rustc_hir::Block<'tcx>) {
        if let rustc_hir::BlockCheckMode::UnsafeBlock(src) = b.rules {
            self.found.push(J::Obj(vec![("span", self.cx.span(b.span)), ("source", J::Str(format!("{:?}", src)))]));
        }
        intravisit::walk_block(self, b);
    }
}

struct Cb;

impl rustc_driver::Callbacks for Cb {
    fn after_analysis<'tcx>(&mut self, _c: &rustc_interface::interface::Compiler, tcx: TyCtxt<'tcx>) -> Compilation {
        let out_dir = match std::env::var("MIRDUMP_OUT") {
            Ok(d) => d,
            Err(_) => return Compilation::Continue,
        };
        let cx = Cx { tcx };
        let krate = tcx.crate_name(LOCAL_CRATE).to_string();
        let crate_types: Vec<String> = tcx.crate_types().iter().map(|t| format!("{:?}", t)).collect();
        let is_test = tcx.sess.opts.test;
        let mut bodies = Vec::new();
        for ldid in tcx.hir_body_owners() {
            if let Some(b) = cx.body(ldid) {
                bodies.push(b);
            }
        }
        let nbodies = bodies.len();
        let mut top: Vec<(&'static str, J)> = vec![
            ("crate", J::Str(krate.clone())),
            ("crate_types", J::Arr(crate_types.iter().map(|s| J::Str(s.clone())).collect())),
            ("test", J::Bool(is_test)),
            ("debug_assertions", J::Bool(tcx.sess.opts.debug_assertions)),
            ("overflow_checks", J::Bool(tcx.sess.overflow_checks())),
            ("bodies", J::Arr(bodies)),
        ];
        cx.adts_impls(&mut top);
        let mut s = String::new();
        J::Obj(top).write(&mut s);
        let kind = if is_test { "test" } else { crate_types.first().map(|s| s.as_str()).unwrap_or("x") };
        let fname = format!("{}/{}.{}.json", out_dir, krate, kind.to_lowercase());
        let tmp = format!("{}.tmp{}", fname, std::process::id());
        std::fs::write(&tmp, s).expect("mirdump: cannot write output");
        std::fs::rename(&tmp, &fname).expect("mirdump: cannot rename output");
        eprintln!("mirdump: crate={} kind={} bodies={} -> {}", krate, kind, nbodies, fname);
        Compilation::Continue
    }
}

fn main() {
    let mut args: Vec<String> = std::env::args().collect();
    // RUSTC_WORKSPACE_WRAPPER: argv[1] is the real rustc path
    if args.len() > 1 && (args[1].ends_with("rustc") || args[1].contains("/rustc")) {
        args.remove(1);
    }
    rustc_driver::run_compiler(&args, &mut Cb);
}
